// vrun: driver of the runtime-monitoring checks.
//
//	vrun check <ID> --tier quick|thorough
//	vrun replay <path>
//	vrun list
package main

import (
	"fmt"
	"os"

	"verif/internal/checks"
	"verif/internal/core"
)

func main() {
	if len(os.Args) < 2 {
		usage()
	}
	switch os.Args[1] {
	case "list":
		for _, id := range checks.IDs() {
			fmt.Println(id)
		}
	case "check":
		if len(os.Args) < 3 {
			usage()
		}
		id := os.Args[2]
		tier := "quick"
		for i := 3; i < len(os.Args); i++ {
			if os.Args[i] == "--tier" && i+1 < len(os.Args) {
				tier = os.Args[i+1]
			}
		}
		if tier != "quick" && tier != "thorough" {
			usage()
		}
		c := checks.Get(id)
		if c == nil {
			fmt.Fprintf(os.Stderr, "unknown property %s\n", id)
			os.Exit(2)
		}
		run := core.NewRun(id, tier, c.Level)
		func() {
			defer func() {
				if p := recover(); p != nil {
					run.Inconclusive(fmt.Sprintf("driver panic: %v", p))
					fmt.Fprintf(os.Stderr, "driver panic: %v\n", p)
				}
			}()
			c.Run(run, tier)
		}()
		os.Exit(run.Finish())
	case "gen":
		// vrun gen <profile> <seed> : print one generated program and its predicted output (debugging aid)
		checks.DebugGen(os.Args[2:])
	case "replay":
		if len(os.Args) < 3 {
			usage()
		}
		os.Exit(checks.Replay(os.Args[2]))
	default:
		usage()
	}
}

func usage() {
	fmt.Fprintln(os.Stderr, "usage: vrun check <ID> --tier quick|thorough | vrun replay <path> | vrun list")
	os.Exit(2)
}
