#!/bin/sh
# usage: tools/seedtest.sh <patch.diff> <property-id> [more ids...]
# Applies a seeded change to /repo, runs the quick checks named, and undoes the change.
patch="$1"; shift
cd /repo || exit 2
git diff --quiet || { echo "/repo has uncommitted changes"; exit 2; }
git apply "$patch" || { echo "patch does not apply"; exit 2; }
trap 'cd /repo && git checkout -- . && git clean -fdq' EXIT
cd /verif
for id in "$@"; do
  ./check "$id" quick > /tmp/seed_$id.out 2>&1
  echo "== $id exit=$? : $(grep -c '^VIOLATION' /tmp/seed_$id.out) violation lines; $(tail -1 /tmp/seed_$id.out | cut -c1-160)"
  grep '^VIOLATION' /tmp/seed_$id.out | head -2 | cut -c1-330
done
