#!/bin/sh
# usage: tools/seedtest.sh <patch.diff> <property-id> [more ids...]
# Runs the named quick checks against the current /repo tree with a seeded change applied.
# The change is applied to a throw-away copy (VERIF_REPO) so that background runs reading
# /repo itself are not disturbed; equivalent to `git -C /repo apply` + run + `git checkout -- .`.
patch="$1"; shift
S=$(mktemp -d /tmp/seedrepo-XXXXXX) || exit 2
trap 'rm -rf "$S"' EXIT
rsync -a --exclude /.git /repo/ "$S/repo/" || exit 2
# (a later fix: commit may have moved the context of an old patch: fall back to patch(1) with fuzz)
(cd "$S/repo" && git init -q . 2>/dev/null && git apply "$patch" 2>/dev/null) || (cd "$S/repo" && patch -p1 -F3 --no-backup-if-mismatch < "$patch" > /dev/null 2>&1 && echo "(applied with fuzz)") || { echo "patch does not apply"; exit 2; }
rm -rf "$S/repo/.git"
cd /verif
for id in "$@"; do
  # the evidence file of /verif must describe runs against /repo itself: keep it aside
  cp evidence/$id.json "$S/evidence_$id.json" 2>/dev/null
  VERIF_REPO="$S/repo" ./check "$id" quick > /tmp/seed_$id.out 2>&1
  rc=$?
  cp "$S/evidence_$id.json" evidence/$id.json 2>/dev/null
  echo "== $id exit=$rc : $(grep -c '^VIOLATION' /tmp/seed_$id.out) violation lines; $(tail -1 /tmp/seed_$id.out | cut -c1-160)"
  grep '^VIOLATION' /tmp/seed_$id.out | head -2 | cut -c1-330
done
