#!/bin/sh
# usage: tools/seedall.sh [seed-id-prefix]
# Regression run of the checks themselves: every kept seeded change is applied to a copy of
# /repo and the quick check of its own property must report a violation (exit 1).
# Lines: CAUGHT / MISSED / NOAPPLY (the patch no longer applies to the current tree) / OBSOLETE.
cd /verif
for d in seeded/${1}*/; do
  id=$(basename $d); prop=$(echo $id | cut -c1-3)
  pf=/verif/$d/patch.diff
  # (a change that later repairs of /repo turned into a no-op: its own demonstration passes with it)
  if [ -f /verif/$d/OBSOLETE ]; then echo "OBSOLETE $id (see seeded/$id/OBSOLETE)"; continue; fi
  # (a patch that a later fix: commit made unappliable has a hand-ported twin next to it)
  for alt in /verif/$d/patch_ported_to_*.diff; do [ -f "$alt" ] && pf="$alt"; done
  out=$(./tools/seedtest.sh $pf $prop 2>&1)
  if echo "$out" | grep -q "patch does not apply"; then echo "NOAPPLY $id"; continue; fi
  rc=$(echo "$out" | grep "^== $prop" | sed 's/.*exit=\([0-9]*\).*/\1/')
  if [ "$rc" = "1" ]; then echo "CAUGHT  $id ($(echo "$out" | grep "^== $prop" | sed 's/.*: \([0-9]* violation lines\).*/\1/'))"; else echo "MISSED  $id exit=$rc"; fi
done
