#!/bin/sh
# Developer helper (not used by any check): after editing fc/*.fo in /repo, regenerate
# fc/gen_*.go with the compiler built from the current gen files, iterate to the fixed
# point and copy the result back into /repo/fc. Also regenerates samples and the tool
# and reports any file that changes.
set -e
export GOFLAGS=-mod=mod GOPROXY=off GOSUMDB=off GOTOOLCHAIN=local
T=$(mktemp -d /tmp/verif-regen-XXXXXX)
trap 'rm -rf "$T"' EXIT
rsync -a --exclude /.git /repo/ "$T/repo/"
cd "$T/repo/fc"
ORDER=$(grep '^./fc ' fc_all.sh | sed 's/^.\/fc \$PKG_INFO //')
for round in 1 2 3; do
  go build -o "$T/fc$round" .
  "$T/fc$round" ../pkg/pkg_all.foi $ORDER > /dev/null
  gofmt -w gen_*.go
  if [ $round -gt 1 ] && diff -rq "$T/prev" . -x fc -x '*.fo' > /dev/null 2>&1; then echo "fixed point after round $round"; break; fi
  rm -rf "$T/prev"; mkdir "$T/prev"; cp gen_*.go "$T/prev/"
  mkdir -p "$T/prevcmp"; 
done
go build -o "$T/fcfinal" . 
cp gen_*.go /repo/fc/
cd "$T/repo/samples"
for f in $(sed 's/ .*$//' filelist.txt); do "$T/fcfinal" ../pkg/pkg_all.foi $f > /dev/null; done
gofmt -w gen_*.go
cd "$T/repo/cmd/build_sample_md"; "$T/fcfinal" ../../pkg/pkg_all.foi build_sample_md.fo > /dev/null; gofmt -w gen_build_sample_md.go
cd "$T/repo"; for f in samples/gen_*.go cmd/build_sample_md/gen_build_sample_md.go; do cmp -s $f /repo/$f || echo "CHANGED: $f"; done
cd /repo && git status --short
