#!/bin/sh
# Runs the repository's own test suite (51 tests) with the verif guard OFF, on a
# scratch copy of /repo's working tree (building inside /repo would let
# -mod=mod rewrite its go.mod files). Prints go test -json output per module.
export GOFLAGS=-mod=mod GOPROXY=off GOSUMDB=off GOTOOLCHAIN=local
REPO="${VERIF_REPO:-/repo}"
T=$(mktemp -d /tmp/verif-baseline-XXXXXX) || exit 2
trap 'rm -rf "$T"' EXIT
rsync -a --exclude /.git "$REPO"/ "$T"/repo/ || exit 2
rc=0
# modules that contain tests (samples/ holds 21 independent main programs and has none)
for m in $(cd "$T/repo" && find . -name '*_test.go' -exec dirname {} \; | sort -u); do
  (cd "$T/repo/$m" && go test -vet=off -count=1 -timeout 25m ${VERIF_BASELINE_JSON:+-json} ./...) || rc=1
done
exit $rc
