#!/bin/sh
# usage: tools/seedconfirm.sh <worktree> "<demo command>"
# Confirms a seeded change in its scratch worktree: tests pass with it, demo fails with it and passes without it.
export GOFLAGS=-mod=mod GOPROXY=off GOSUMDB=off GOTOOLCHAIN=local
wt="$1"; demo="$2"
cd "$wt" || exit 2
echo "--- test suite with the change"
for m in fc pkg/buf pkg/frt pkg/slice tinyfo; do (cd $wt/$m && go test -vet=off -count=1 ./... 2>&1 | tail -1); done
git checkout -q fc/go.mod 2>/dev/null
echo "--- demo WITH the change (expect failure)"
sh -c "$demo" > /tmp/seedconfirm_with.out 2>&1; echo "exit=$?"; tail -3 /tmp/seedconfirm_with.out
git checkout -q fc/go.mod 2>/dev/null
# (git stash is shared between worktrees: use a diff file instead)
git diff > /tmp/seedconfirm_change_$$.diff
git apply -R /tmp/seedconfirm_change_$$.diff
echo "--- demo WITHOUT the change (expect success)"
sh -c "$demo" > /tmp/seedconfirm_without.out 2>&1; echo "exit=$?"; tail -3 /tmp/seedconfirm_without.out
git checkout -q fc/go.mod 2>/dev/null
git apply /tmp/seedconfirm_change_$$.diff && rm -f /tmp/seedconfirm_change_$$.diff
git status --short | head -5
