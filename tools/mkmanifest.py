#!/usr/bin/env python3
"""Writes /verif/MANIFEST.json from the table below and validates it (and any
evidence files present) against the schemas in /root/.vp/."""
import json, os, subprocess, sys
ROOT = os.path.dirname(os.path.dirname(os.path.abspath(__file__)))

# id -> (category, technique, level text, level note, design ref)
CHECKS = {
 "C12": ("exploration", "runtime monitor: snapshot-vs-live comparison of every slice value after every library call, over random and exhaustively enumerated call histories",
         "Held on every history explored: 2 000 (quick) / 100 000 (thorough) random straight-line histories of 30..200 real pkg/slice calls plus all call sequences of length <= 3 over three starting values; after each call every value ever produced is re-compared with its creation-time snapshot. Exploration is the right level: purity is a property of executions over aliasing states (len/cap/shared backing arrays) that only running the real functions on pooled values exposes.",
         "Trusts the Go toolchain and the monitor's element-wise snapshot; values come only from literals and library results, as in Folang programs; says nothing about histories not generated.", "3/C12"),
 "C13": ("exploration", "runtime monitor: differential check of every pkg/slice function against an independent list model, exhaustive over small slices, with call-order recording",
         "Every function of pkg/slice is run on every int slice of length 0..6 over {0,1,2} and every string slice of length 0..4 over 3 strings (exhaustive), with all valid indices/counts and a family of predicates/projections/folders whose invocations are recorded, and compared with an independent index-loop model; thorough adds longer random slices.",
         "Trusts the model (written from the F# List documentation, shares no code with pkg/slice); small-scope hypothesis for lengths beyond the bound.", "3/C13"),
 "C14": ("exploration", "runtime monitor: operation histories on real dict/strings/buf/frt replayed against reference models (association list, Go strings, counters)",
         "5 000 / 100 000 dict histories with unique written values against an association-list model, the full cross product of a hostile string set for every strings function against Go's strings with the pipeline argument order, buffer write sequences, and frt helpers with counting thunks and every basic Go kind for the formatting helpers (under recover).",
         "Trusts Go's strings/fmt as reference; enumeration order of dict is unspecified and compared as multiset.", "3/C14"),
}

PENDING = {}
for i in range(1, 19):
    pid = "C%02d" % i
    if pid not in CHECKS:
        PENDING[pid] = "check designed in DESIGN.md but not built yet in this snapshot (work in progress; will be claimed once its monitor runs clean on the unchanged tree)"

def main():
    checks = []
    for pid in sorted(CHECKS):
        cat, tech, text, note, ref = CHECKS[pid]
        checks.append({
            "property_id": pid,
            "quick_cmd": "./check %s quick" % pid,
            "thorough_cmd": "./check %s thorough" % pid,
            "evidence_file": "/verif/evidence/%s.json" % pid,
            "replay_cmd_template": "./check replay {path}",
            "engine": "vrun",
            "level_claimed": {"category": cat, "text": text, "design_ref": "DESIGN.md §" + ref},
            "level_note": note,
            "technique": tech,
        })
    m = {
        "version": 1,
        "setup_cmd": "sh -c 'export GOFLAGS=-mod=mod GOPROXY=off GOSUMDB=off GOTOOLCHAIN=local CGO_ENABLED=0; mkdir -p bin evidence && go build -trimpath -o bin/vrun ./cmd/vrun'",
        "hooks": {
            "guard": "verif",
            "enable": "checks copy /repo's working tree to a scratch directory and build it there with `go build -tags verif`",
            "baseline_off_cmd": "VERIF_BASELINE_JSON=1 ./tools/baseline_off.sh",
            "source_commits": HOOK_COMMITS,
            "add_only": True,
        },
        "engines": [
            {"name": "vrun", "path": "cmd/vrun", "serves_properties": sorted(CHECKS),
             "kind_free_text": "Go driver (stdlib only): snapshots /repo's working tree, builds the real binaries/packages with -tags verif, drives generated/enumerated/fault-injected workloads, runs the monitors (reference models, snapshot comparison, event-log checkers) and writes evidence"},
        ],
        "checks": checks,
        "notes": "Runtime monitoring only: every verdict comes from executing the real fc / tinyfo / build_sample_md binaries or the real pkg/* packages rebuilt from /repo's working tree while an oracle observes outputs, event logs, exit status, files and syscalls. Race detector / sanitizers / porcupine are not used as deciding steps: the code base has no goroutines, no unsafe, no cgo (see DESIGN.md §0). Known findings and repaired defects: /verif/KNOWN_FINDINGS.txt.",
        "not_applicable": [{"property_id": k, "reason": v} for k, v in sorted(PENDING.items())],
    }
    with open(os.path.join(ROOT, "MANIFEST.json"), "w") as f:
        json.dump(m, f, indent=1)
        f.write("\n")
    validate()

HOOK_COMMITS = []

def validate():
    code = r'''
import json, sys, glob, jsonschema
ms = json.load(open("/root/.vp/MANIFEST.schema.json")); es = json.load(open("/root/.vp/EVIDENCE.schema.json"))
m = json.load(open("%s/MANIFEST.json"))
jsonschema.validate(m, ms)
print("MANIFEST ok:", len(m["checks"]), "checks,", len(m.get("not_applicable", [])), "not claimed")
for c in m["checks"]:
    p = c["evidence_file"]
    try:
        e = json.load(open(p))
    except FileNotFoundError:
        print("  (no evidence yet)", p); continue
    jsonschema.validate(e, es)
    assert e["level"] == c["level_claimed"]["category"], (p, e["level"])
    print("  evidence ok", p, e["tier"], e["coverage"].get("evaluations"), e["coverage"].get("distinct_nontrivial"))
''' % ROOT
    subprocess.run(["python3-vt", "-c", code], check=True)

if __name__ == "__main__":
    main()
