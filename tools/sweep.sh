#!/bin/sh
# usage: tools/sweep.sh <tier> [ids…]   — runs the checks one after another, one summary line each.
tier="$1"; shift
ids="$*"; [ -z "$ids" ] && ids="C01 C02 C03 C04 C05 C06 C07 C08 C09 C10 C11 C12 C13 C14 C15 C16 C17 C18"
for id in $ids; do
  t0=$(date +%s)
  ./check $id $tier > sweep_$id.out 2>&1; rc=$?
  t1=$(date +%s)
  echo "== $id tier=$tier seed=${VERIF_SEED:-1} exit=$rc $((t1-t0))s : $(grep -c '^VIOLATION' sweep_$id.out) violation lines; $(grep '^RESULT' sweep_$id.out | cut -c1-200)"
  grep '^VIOLATION\|^KNOWN-FINDING\|^INCONCLUSIVE' sweep_$id.out | cut -c1-400 | head -12
done
