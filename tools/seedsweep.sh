#!/bin/sh
# usage: tools/seedsweep.sh <tier> <seed> [<seed>…]  — every check at each seed, one line per run.
tier="$1"; shift
for seed in "$@"; do
  for id in C01 C02 C03 C04 C05 C06 C07 C08 C09 C10 C11 C12 C13 C14 C15 C16 C17 C18; do
    VERIF_SEED=$seed ./check $id $tier > sw.out 2>&1; rc=$?
    echo "=== seed $seed $id exit=$rc $(grep -c '^VIOLATION' sw.out) viol; $(grep '^RESULT\|^INCONCLUSIVE' sw.out | head -1 | cut -c1-150)"
    grep '^VIOLATION' sw.out | head -3 | cut -c1-400
  done
done
