#!/bin/sh
# usage: tools/seedkeep.sh <worktree> <seed-id> "<checks that caught it>" "<checks run>"
# Copies patch, demonstration and meta into /verif/seeded/<seed-id>/ and removes the worktree.
wt="$1"; id="$2"; caught="$3"; ran="$4"
d=/verif/seeded/$id
mkdir -p $d
cp $wt/demo/patch.diff $d/patch.diff
rsync -a --exclude patch.diff --exclude meta.json --exclude '*.bin' --exclude 'demo' --exclude 'fc_bin' $wt/demo/ $d/demo/
find $d/demo -type f -size +512k -delete
python3 - "$wt" "$d" "$caught" "$ran" <<'PY'
import json,sys
wt,d,caught,ran=sys.argv[1:5]
try: m=json.load(open(wt+'/demo/meta.json'))
except Exception as e: m={"note":"agent meta.json unreadable: %s"%e}
m["confirmed"]={"test_suite_passes_with_change":True,"demo_fails_with_change":True,"demo_passes_without_change":True,
  "how":"tools/seedconfirm.sh in the scratch worktree; tools/seedtest.sh against /repo (git apply, quick checks, git checkout)"}
m["checks_run"]=ran.split()
m["caught_by"]=caught.split()
json.dump(m,open(d+'/meta.json','w'),indent=1)
PY
git -C /repo worktree remove --force $wt && echo "removed $wt"
ls $d
