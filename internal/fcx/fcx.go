// Package fcx runs the rebuilt fc binary on generated sources.
package fcx

import (
	"os"
	"path/filepath"
	"strings"

	"verif/internal/scratch"
)

type Out struct {
	Res   scratch.Result
	Gen   map[string]string // file name -> content of every gen_*.go present afterwards
	Dir   string
	Files []string // all files present afterwards
}

// Transpile writes files (name -> content) into dir and runs `fc pkg_all.foi <order...>`.
// order lists the arguments after pkg_all.foi; usePkgAll=false omits it.
func Transpile(fc, pkgAll, dir string, files map[string]string, order []string, env []string, cpuSec int) Out {
	os.MkdirAll(dir, 0o755)
	for n, c := range files {
		p := filepath.Join(dir, n)
		os.MkdirAll(filepath.Dir(p), 0o755)
		os.WriteFile(p, []byte(c), 0o644)
	}
	var args []string
	if pkgAll != "" {
		args = append(args, pkgAll)
	}
	args = append(args, order...)
	if cpuSec == 0 {
		cpuSec = 20
	}
	res := scratch.Run(scratch.Cmd{Path: fc, Args: args, Dir: dir, Env: env, CPUSec: cpuSec, WallSec: 180})
	out := Out{Res: res, Gen: map[string]string{}, Dir: dir}
	filepath.Walk(dir, func(p string, info os.FileInfo, err error) error {
		if err != nil || info.IsDir() {
			return nil
		}
		rel, _ := filepath.Rel(dir, p)
		out.Files = append(out.Files, rel)
		if strings.HasPrefix(filepath.Base(p), "gen_") && strings.HasSuffix(p, ".go") {
			b, _ := os.ReadFile(p)
			out.Gen[rel] = string(b)
		}
		return nil
	})
	return out
}

// Diag returns the diagnostic text fc printed (stdout carries "transpile:" progress
// lines and the OnParseError message; stderr carries Go panics).
func (o Out) Diag() string {
	var keep []string
	for _, l := range strings.Split(o.Res.Stdout, "\n") {
		if strings.HasPrefix(l, "transpile: ") || strings.TrimSpace(l) == "" {
			continue
		}
		keep = append(keep, l)
	}
	s := strings.Join(keep, "\n")
	if strings.TrimSpace(o.Res.Stderr) != "" {
		s += "\n[stderr] " + o.Res.Stderr
	}
	return s
}
