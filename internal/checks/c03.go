package checks

import (
	"fmt"
	"regexp"
	"strings"

	"verif/internal/core"
	"verif/internal/gobatch"
	"verif/internal/scratch"
)

func init() { register("C03", "exploration", runC03) }

// c03Ty is a field / payload / parameter type with a value on both sides.
type c03Ty struct {
	fo    string                // Folang type
	gox   string                // documented Go representation
	goVal func(k int) string    // Go expression of a value (k varies the value)
	show  func(x string) string // Go expression rendering x as a string
	text  func(k int) string    // what show prints for goVal(k)
}

func c03Types() []c03Ty {
	q := func(s string) string { return fmt.Sprintf("%q", s) }
	return []c03Ty{
		{"int", "int", func(k int) string { return fmt.Sprint(100 + k) }, func(x string) string { return "fmt.Sprint(" + x + ")" }, func(k int) string { return fmt.Sprint(100 + k) }},
		{"string", "string", func(k int) string { return q(fmt.Sprint("s", k)) }, func(x string) string { return x }, func(k int) string { return fmt.Sprint("s", k) }},
		{"bool", "bool", func(k int) string { return fmt.Sprint(k%2 == 0) }, func(x string) string { return "fmt.Sprint(" + x + ")" }, func(k int) string { return fmt.Sprint(k%2 == 0) }},
		{"float", "float64", func(k int) string { return fmt.Sprintf("%d.5", k) }, func(x string) string { return "fmt.Sprint(" + x + ")" }, func(k int) string { return fmt.Sprintf("%d.5", k) }},
		{"[]int", "[]int", func(k int) string { return fmt.Sprintf("[]int{%d, %d}", k, k+1) }, func(x string) string { return "fmt.Sprint(" + x + ")" }, func(k int) string { return fmt.Sprintf("[%d %d]", k, k+1) }},
		{"[]string", "[]string", func(k int) string { return fmt.Sprintf("[]string{%q}", fmt.Sprint("e", k)) }, func(x string) string { return "fmt.Sprint(" + x + ")" }, func(k int) string { return fmt.Sprintf("[e%d]", k) }},
		{"int*string", "frt.Tuple2[int, string]", func(k int) string { return fmt.Sprintf("frt.NewTuple2(%d, %q)", k, fmt.Sprint("t", k)) }, func(x string) string { return "fmt.Sprintf(\"%v / %v\", " + x + ".E0, " + x + ".E1)" }, func(k int) string { return fmt.Sprintf("%d / t%d", k, k) }},
		{"int*string*bool", "frt.Tuple3[int, string, bool]", func(k int) string { return fmt.Sprintf("frt.NewTuple3(%d, %q, true)", k, fmt.Sprint("u", k)) }, func(x string) string { return "fmt.Sprintf(\"%v %v %v\", " + x + ".E0, " + x + ".E1, " + x + ".E2)" }, func(k int) string { return fmt.Sprintf("%d u%d true", k, k) }},
		{"int->int", "func(int) int", func(k int) string { return fmt.Sprintf("func(i int) int { return i + %d }", k) }, func(x string) string { return "fmt.Sprint(" + x + "(1000))" }, func(k int) string { return fmt.Sprint(1000 + k) }},
		{"int->string->bool", "func(int, string) bool", func(k int) string { return fmt.Sprintf("func(i int, s string) bool { return i == %d }", k) }, func(x string) string { return "fmt.Sprint(" + x + fmt.Sprintf("(5, \"\"))") }, func(k int) string { return fmt.Sprint(k == 5) }},
		{"()->int", "func() int", func(k int) string { return fmt.Sprintf("func() int { return %d }", k) }, func(x string) string { return "fmt.Sprint(" + x + "())" }, func(k int) string { return fmt.Sprint(k) }},
		{"Base", "Base", func(k int) string { return fmt.Sprintf("Base{Bx: %d, By: %q}", k, fmt.Sprint("b", k)) }, func(x string) string { return "fmt.Sprintf(\"%v %v\", " + x + ".Bx, " + x + ".By)" }, func(k int) string { return fmt.Sprintf("%d b%d", k, k) }},
		{"string*(int*int)", "frt.Tuple2[string, frt.Tuple2[int, int]]", func(k int) string {
			return fmt.Sprintf("frt.NewTuple2(%q, frt.NewTuple2(%d, %d))", fmt.Sprint("n", k), k, k+1)
		}, func(x string) string {
			return "fmt.Sprintf(\"%v %v %v\", " + x + ".E0, " + x + ".E1.E0, " + x + ".E1.E1)"
		}, func(k int) string { return fmt.Sprintf("n%d %d %d", k, k, k+1) }},
		{"(int*string)*bool", "frt.Tuple2[frt.Tuple2[int, string], bool]", func(k int) string {
			return fmt.Sprintf("frt.NewTuple2(frt.NewTuple2(%d, %q), false)", k, fmt.Sprint("m", k))
		}, func(x string) string {
			return "fmt.Sprintf(\"%v %v %v\", " + x + ".E0.E0, " + x + ".E0.E1, " + x + ".E1)"
		}, func(k int) string { return fmt.Sprintf("%d m%d false", k, k) }},
		{"[]int*string", "frt.Tuple2[[]int, string]", func(k int) string { return fmt.Sprintf("frt.NewTuple2([]int{%d}, %q)", k, fmt.Sprint("w", k)) }, func(x string) string { return "fmt.Sprintf(\"%v %v\", " + x + ".E0, " + x + ".E1)" }, func(k int) string { return fmt.Sprintf("[%d] w%d", k, k) }},
		{"int*[]string", "frt.Tuple2[int, []string]", func(k int) string { return fmt.Sprintf("frt.NewTuple2(%d, []string{%q})", k, fmt.Sprint("x", k)) }, func(x string) string { return "fmt.Sprintf(\"%v %v\", " + x + ".E0, " + x + ".E1)" }, func(k int) string { return fmt.Sprintf("%d [x%d]", k, k) }},
		{"[](int*string)", "[]frt.Tuple2[int, string]", func(k int) string {
			return fmt.Sprintf("[]frt.Tuple2[int, string]{frt.NewTuple2(%d, %q)}", k, fmt.Sprint("y", k))
		}, func(x string) string {
			return "fmt.Sprintf(\"%v %v %v\", len(" + x + "), " + x + "[0].E0, " + x + "[0].E1)"
		}, func(k int) string { return fmt.Sprintf("1 %d y%d", k, k) }},
		{"(int->int)->int", "func(func(int) int) int", func(k int) string { return fmt.Sprintf("func(g func(int) int) int { return g(%d) }", k) }, func(x string) string { return "fmt.Sprint(" + x + "(func(i int) int { return i * 2 }))" }, func(k int) string { return fmt.Sprint(2 * k) }},
		{"[]Base", "[]Base", func(k int) string { return fmt.Sprintf("[]Base{{Bx: %d, By: \"z\"}}", k) }, func(x string) string { return "fmt.Sprint(len(" + x + "), " + x + "[0].Bx)" }, func(k int) string { return fmt.Sprintf("1 %d", k) }},
	}
}

// c03DeclProgram builds one declaration package: Folang source, Go client and expected output.
func c03DeclProgram(rng *core.Rand, pkg string) (src, client, want string) {
	tys := c03Types()
	var fo, gob, w strings.Builder
	fmt.Fprintf(&fo, "package %s\n\nimport frt\nimport dict\n\ntype Base = {Bx: int; By: string}\n\n", pkg)
	fmt.Fprintf(&gob, "package %s\n\nimport (\n\t\"fmt\"\n\n\t\"github.com/karino2/folang/pkg/dict\"\n\t\"github.com/karino2/folang/pkg/frt\"\n)\n\nvar _ = frt.Println\n\nfunc Run() {\n", pkg)
	pr := func(expr, text string) {
		fmt.Fprintf(&gob, "\tfmt.Println(%s)\n", expr)
		w.WriteString(text + "\n")
	}
	kk := 0
	next := func() int { kk++; return kk }
	// records
	nr := 1 + rng.Intn(3)
	for r := 0; r < nr; r++ {
		nf := 1 + rng.Intn(4)
		var fields []c03Ty
		var defs, params, inits []string
		for f := 0; f < nf; f++ {
			t := tys[rng.Intn(len(tys))]
			fields = append(fields, t)
			defs = append(defs, fmt.Sprintf("F%d%c: %s", r, 'a'+f, t.fo))
			params = append(params, fmt.Sprintf("(p%d:%s)", f, t.fo))
			inits = append(inits, fmt.Sprintf("F%d%c=p%d", r, 'a'+f, f))
		}
		fmt.Fprintf(&fo, "type Rec%d = {%s}\n\n", r, strings.Join(defs, "; "))
		// constructor function taking the fields in order, and one getter per field
		fmt.Fprintf(&fo, "let mkRec%d %s =\n  {%s}\n\n", r, strings.Join(params, " "), strings.Join(inits, "; "))
		var lit, args []string
		ks := make([]int, nf)
		for f := range fields {
			ks[f] = next()
			lit = append(lit, fmt.Sprintf("F%d%c: %s", r, 'a'+f, fields[f].goVal(ks[f])))
			args = append(args, fields[f].goVal(ks[f]+50))
		}
		fmt.Fprintf(&gob, "\tr%d := Rec%d{%s}\n", r, r, strings.Join(lit, ", "))
		fmt.Fprintf(&gob, "\tm%d := mkRec%d(%s)\n", r, r, strings.Join(args, ", "))
		for f, t := range fields {
			fmt.Fprintf(&fo, "let getRec%d%c (r:Rec%d) =\n  r.F%d%c\n\n", r, 'a'+f, r, r, 'a'+f)
			fmt.Fprintf(&gob, "\tvar r%df%d %s = r%d.F%d%c\n", r, f, t.gox, r, r, 'a'+f)
			pr(t.show(fmt.Sprintf("r%df%d", r, f)), t.text(ks[f]))
			fmt.Fprintf(&gob, "\tvar m%df%d %s = getRec%d%c(m%d)\n", r, f, t.gox, r, 'a'+f, r)
			pr(t.show(fmt.Sprintf("m%df%d", r, f)), t.text(ks[f]+50))
		}
	}
	// names that Go predeclares (builtin functions, constants, types) are ordinary identifiers in
	// Folang and in Go: fields, functions and a package variable named like them keep their names
	{
		fpool := []string{"min", "max", "len", "cap", "new", "copy", "clear", "print", "println", "real", "imag", "iota", "error", "append", "delete", "close", "complex", "recover", "make"}
		gpool := []string{"min", "max", "clear", "copy", "cap", "real", "imag", "print", "iota", "close", "delete"}
		core.Shuffle(rng, fpool)
		core.Shuffle(rng, gpool)
		nf := 2 + rng.Intn(4)
		var defs, inits, lit, reads []string
		sum := 0
		for f := 0; f < nf; f++ {
			k := next()
			defs = append(defs, fpool[f]+": int")
			inits = append(inits, fmt.Sprintf("%s=a + %d", fpool[f], f))
			lit = append(lit, fmt.Sprintf("%s: %d", fpool[f], k))
			reads = append(reads, "r."+fpool[f])
			sum += k
		}
		fn1, fn2, gv := gpool[0], gpool[1], gpool[2]
		fmt.Fprintf(&fo, "type NameRec = {%s}\n\nlet %s (r:NameRec) =\n  %s\n\nlet %s (a:int) =\n  {%s}\n\nlet %s = 7700 + %d\n\n", strings.Join(defs, "; "), fn1, strings.Join(reads, " + "), fn2, strings.Join(inits, "; "), gv, kk)
		fmt.Fprintf(&gob, "\tnrec := NameRec{%s}\n", strings.Join(lit, ", "))
		pr(fmt.Sprintf("%s(nrec)", fn1), fmt.Sprint(sum))
		fmt.Fprintf(&gob, "\tnmk := %s(%d)\n", fn2, 100*kk)
		for f := 0; f < nf; f++ {
			pr("nmk."+fpool[f], fmt.Sprint(100*kk+f))
		}
		pr(gv, fmt.Sprint(7700+kk))
	}
	// unions
	nu := 1 + rng.Intn(2)
	for u := 0; u < nu; u++ {
		nc := 1 + rng.Intn(4)
		var cases []*c03Ty
		fmt.Fprintf(&fo, "type Uni%d =\n", u)
		for c := 0; c < nc; c++ {
			if rng.Chance(0.3) {
				cases = append(cases, nil)
				fmt.Fprintf(&fo, "| K%d%c\n", u, 'a'+c)
			} else {
				t := tys[rng.Intn(len(tys))]
				cases = append(cases, &t)
				fmt.Fprintf(&fo, "| K%d%c of %s\n", u, 'a'+c, t.fo)
			}
		}
		fmt.Fprintf(&fo, "\nlet tagUni%d (v:Uni%d) =\n  match v with\n", u, u)
		for c := range cases {
			if cases[c] == nil {
				fmt.Fprintf(&fo, "  | K%d%c -> \"K%d%c\"\n", u, 'a'+c, u, 'a'+c)
			} else {
				fmt.Fprintf(&fo, "  | K%d%c _ -> \"K%d%c\"\n", u, 'a'+c, u, 'a'+c)
			}
		}
		fo.WriteString("\n")
		for c, t := range cases {
			name := fmt.Sprintf("K%d%c", u, 'a'+c)
			vn := fmt.Sprintf("u%d%c", u, 'a'+c)
			if t == nil {
				// no payload, non-generic union: New_U_C is a package variable
				fmt.Fprintf(&gob, "\tvar %s Uni%d = New_Uni%d_%s\n", vn, u, u, name)
			} else {
				k := next()
				fmt.Fprintf(&gob, "\tvar %s Uni%d = New_Uni%d_%s(%s)\n", vn, u, u, name, t.goVal(k))
				fmt.Fprintf(&gob, "\tswitch x := %s.(type) {\n\tcase Uni%d_%s:\n\t\tvar p %s = x.Value\n\t\tfmt.Println(%s)\n\tdefault:\n\t\tfmt.Println(\"wrong case struct\")\n\t}\n", vn, u, name, t.gox, t.show("p"))
				w.WriteString(t.text(k) + "\n")
			}
			pr(fmt.Sprintf("tagUni%d(%s)", u, vn), name)
			// a value built on the Folang side is recognised by the documented case struct
			if t == nil {
				fmt.Fprintf(&fo, "let mk%s () =\n  %s\n\n", name, name)
				fmt.Fprintf(&gob, "\tif _, ok := mk%s().(Uni%d_%s); !ok {\n\t\tfmt.Println(\"mk%s: not the documented case struct\")\n\t}\n", name, u, name, name)
			} else {
				fmt.Fprintf(&fo, "let mk%s (x:%s) =\n  %s x\n\n", name, t.fo, name)
				k := next()
				fmt.Fprintf(&gob, "\tif y, ok := mk%s(%s).(Uni%d_%s); ok {\n\t\tfmt.Println(%s)\n\t} else {\n\t\tfmt.Println(\"mk%s: not the documented case struct\")\n\t}\n", name, t.goVal(k), u, name, t.show("y.Value"), name)
				w.WriteString(t.text(k) + "\n")
			}
		}
	}
	// generic record and union
	{
		t := tys[rng.Intn(8)]
		fo.WriteString("type GBox<T> = {Item: T; Cnt: int}\n\ntype GOpt<T> =\n| GSome of T\n| GNone\n\n")
		fmt.Fprintf(&fo, "let boxItem (b:GBox<%s>) =\n  b.Item\n\n", t.fo)
		fmt.Fprintf(&fo, "let optTag (o:GOpt<%s>) =\n  match o with\n  | GSome _ -> \"some\"\n  | GNone -> \"none\"\n\n", t.fo)
		k := next()
		fmt.Fprintf(&gob, "\tgb := GBox[%s]{Item: %s, Cnt: 3}\n\tvar gi %s = boxItem(gb)\n", t.gox, t.goVal(k), t.gox)
		pr(t.show("gi"), t.text(k))
		k2 := next()
		// a generic union: New_U_C is a function for every case, also the payload-less one
		fmt.Fprintf(&gob, "\tvar gs GOpt[%s] = New_GOpt_GSome(%s)\n\tvar gn GOpt[%s] = New_GOpt_GNone[%s]()\n", t.gox, t.goVal(k2), t.gox, t.gox)
		pr("optTag(gs)", "some")
		pr("optTag(gn)", "none")
		fmt.Fprintf(&gob, "\tif s, ok := gs.(GOpt_GSome[%s]); ok {\n\t\tfmt.Println(%s)\n\t}\n", t.gox, t.show("s.Value"))
		w.WriteString(t.text(k2) + "\n")
	}
	// a generic record with two type parameters: literal with two different argument types, a
	// function generic in both, an accessor
	{
		t1, t2 := tys[rng.Intn(8)], tys[rng.Intn(8)]
		fo.WriteString("type GPair<T, U> = {PFst: T; PSnd: U}\n\n")
		fmt.Fprintf(&fo, "let mkPair (a:%s) (b:%s) =\n  {PFst=a; PSnd=b}\n\n", t1.fo, t2.fo)
		fo.WriteString("let mkAnyPair a b =\n  {PFst=a; PSnd=b}\n\n")
		fmt.Fprintf(&fo, "let pairSnd (p:GPair<%s, %s>) =\n  p.PSnd\n\n", t1.fo, t2.fo)
		k1, k2 := next(), next()
		fmt.Fprintf(&gob, "\tvar gp GPair[%s, %s] = mkPair(%s, %s)\n", t1.gox, t2.gox, t1.goVal(k1), t2.goVal(k2))
		pr(t1.show("gp.PFst"), t1.text(k1))
		pr(t2.show("gp.PSnd"), t2.text(k2))
		fmt.Fprintf(&gob, "\tvar gq GPair[%s, %s] = mkAnyPair(%s, %s)\n", t2.gox, t1.gox, t2.goVal(k2), t1.goVal(k1))
		pr(t2.show("gq.PFst"), t2.text(k2))
		pr(t1.show("gq.PSnd"), t1.text(k1))
		fmt.Fprintf(&gob, "\tvar ps %s = pairSnd(GPair[%s, %s]{PFst: %s, PSnd: %s})\n", t2.gox, t1.gox, t2.gox, t1.goVal(k1), t2.goVal(k2))
		pr(t2.show("ps"), t2.text(k2))
	}
	// functions: unit parameter = no parameter, unit result = no result; package variable
	{
		k := next()
		fmt.Fprintf(&fo, "let constFn () =\n  %d\n\n", 500+k)
		fmt.Fprintf(&fo, "let sideFn (s:string) =\n  frt.Println s\n\n")
		fmt.Fprintf(&fo, "let topVar = %d + 1\n\n", 700+k)
		t1, t2, t3 := tys[rng.Intn(len(tys))], tys[rng.Intn(len(tys))], tys[rng.Intn(len(tys))]
		fmt.Fprintf(&fo, "let third (a:%s) (b:%s) (c:%s) =\n  c\n\n", t1.fo, t2.fo, t3.fo)
		fmt.Fprintf(&fo, "let firstOf (a:%s) (b:%s) (c:%s) =\n  a\n\n", t1.fo, t2.fo, t3.fo)
		fmt.Fprintf(&gob, "\tvar cf int = constFn()\n")
		pr("cf", fmt.Sprint(500+k))
		fmt.Fprintf(&gob, "\tsideFn(\"side effect\")\n")
		w.WriteString("side effect\n")
		fmt.Fprintf(&gob, "\tvar tv int = topVar\n")
		pr("tv", fmt.Sprint(701+k))
		ka, kb, kc := next(), next(), next()
		fmt.Fprintf(&gob, "\tvar th %s = third(%s, %s, %s)\n", t3.gox, t1.goVal(ka), t2.goVal(kb), t3.goVal(kc))
		pr(t3.show("th"), t3.text(kc))
		fmt.Fprintf(&gob, "\tvar fi %s = firstOf(%s, %s, %s)\n", t1.gox, t1.goVal(ka), t2.goVal(kb), t3.goVal(kc))
		pr(t1.show("fi"), t1.text(ka))
	}
	// generic functions defined in Folang, called from Go (type parameters in first-occurrence order)
	{
		t1, t2 := tys[rng.Intn(8)], tys[rng.Intn(8)]
		fo.WriteString("let pairUp a b =\n  (a, b)\n\nlet swapUp a b =\n  (b, a)\n\nlet firstOfThree a b c =\n  frt.Fst (a, (b, c))\n\n")
		k1, k2 := next(), next()
		fmt.Fprintf(&gob, "\tvar pu frt.Tuple2[%s, %s] = pairUp(%s, %s)\n", t1.gox, t2.gox, t1.goVal(k1), t2.goVal(k2))
		pr(t1.show("pu.E0"), t1.text(k1))
		pr(t2.show("pu.E1"), t2.text(k2))
		fmt.Fprintf(&gob, "\tvar su frt.Tuple2[%s, %s] = swapUp[%s, %s](%s, %s)\n", t2.gox, t1.gox, t1.gox, t2.gox, t1.goVal(k1), t2.goVal(k2))
		pr(t2.show("su.E0"), t2.text(k2))
		fmt.Fprintf(&gob, "\tvar f3 %s = firstOfThree[%s, int, string](%s, 1, \"z\")\n", t1.gox, t1.gox, t1.goVal(k1))
		pr(t1.show("f3"), t1.text(k1))
	}
	// recursive declarations: a record referring to itself, a union referring to itself and to a
	// record declared later in the same `and` group, directly inside slices and inside the type
	// arguments of an external generic (dict.Dict)
	{
		recKids := rng.Chance(0.6)
		uniArr := rng.Chance(0.6)
		uniMeta := rng.Chance(0.7)
		fo.WriteString("type Tree = {Label: string; ")
		if recKids {
			fo.WriteString("Kids: []Tree; ")
		}
		fo.WriteString("Named: dict.Dict<string, Tree>}\n\n")
		fo.WriteString("type Js =\n| JNum of int\n")
		if uniArr {
			fo.WriteString("| JArr of []Js\n")
		}
		fo.WriteString("| JObj of dict.Dict<string, Js>\n")
		if uniMeta {
			fo.WriteString("| JMeta of dict.Dict<string, MetaR>\nand MetaR = {Key: string; Origin: Js}\n")
		}
		fo.WriteString("\nlet treeLabel (t:Tree) =\n  t.Label\n\nlet jsNum (i:int) =\n  JNum i\n\n")
		k := next()
		kids := ""
		if recKids {
			kids = "Kids: nil, "
		}
		fmt.Fprintf(&gob, "\tleaf := Tree{Label: \"leaf%d\", %sNamed: dict.New[string, Tree]()}\n", k, kids)
		if recKids {
			kids = "Kids: []Tree{leaf}, "
		}
		fmt.Fprintf(&gob, "\troot := Tree{Label: \"root%d\", %sNamed: dict.New[string, Tree]()}\n", k, kids)
		gob.WriteString("\tdict.Add(root.Named, \"l\", leaf)\n\tvar viaDict Tree = dict.Item(root.Named, \"l\")\n")
		pr("treeLabel(root), treeLabel(viaDict)", fmt.Sprintf("root%d leaf%d", k, k))
		if recKids {
			pr("treeLabel(root.Kids[0])", fmt.Sprintf("leaf%d", k))
		}
		gob.WriteString("\tjd := dict.New[string, Js]()\n")
		fmt.Fprintf(&gob, "\tdict.Add(jd, \"n\", jsNum(%d))\n\tvar jo Js = New_Js_JObj(jd)\n", k)
		gob.WriteString("\tif o, ok := jo.(Js_JObj); ok {\n\t\tvar inner Js = dict.Item(o.Value, \"n\")\n\t\tfmt.Println(inner.(Js_JNum).Value)\n\t}\n")
		w.WriteString(fmt.Sprint(k) + "\n")
		if uniArr {
			gob.WriteString("\tvar ja Js = New_Js_JArr([]Js{jo, jo})\n")
			pr("len(ja.(Js_JArr).Value)", "2")
		}
		if uniMeta {
			gob.WriteString("\tmd := dict.New[string, MetaR]()\n\tdict.Add(md, \"m\", MetaR{Key: \"mk\", Origin: jo})\n\tvar jm Js = New_Js_JMeta(md)\n")
			gob.WriteString("\tvar mr MetaR = dict.Item(jm.(Js_JMeta).Value, \"m\")\n")
			pr("mr.Key", "mk")
			gob.WriteString("\tif _, ok := mr.Origin.(Js_JObj); !ok {\n\t\tfmt.Println(\"MetaR.Origin: not the documented case struct\")\n\t}\n")
		}
	}
	gob.WriteString("}\n")
	return fo.String(), gob.String(), w.String()
}

// c03PkgInfoProgram: package_info signatures against generated Go implementations that log
// their name and arguments in the order received.
func c03PkgInfoProgram(rng *core.Rand, pkg string) (src string, extra map[string]string, want string) {
	var fo, wrap, ext, w strings.Builder
	fmt.Fprintf(&fo, "package %s\n\nimport frt\nimport slice\nimport \"batch/%s/extp\"\n\n", pkg, pkg)
	fmt.Fprintf(&wrap, "package %s\n\nimport \"fmt\"\n\n", pkg)
	ext.WriteString("package extp\n\nimport \"fmt\"\n\n")
	var infoLocal, infoExt strings.Builder
	infoLocal.WriteString("package_info _ =\n")
	infoExt.WriteString("package_info extp =\n")
	var body strings.Builder
	uniq := 0
	val := func(t string) (foV, text string) {
		uniq++
		if t == "int" {
			return fmt.Sprint(1000 + uniq), fmt.Sprint(1000 + uniq)
		}
		return fmt.Sprintf("%q", fmt.Sprint("a", uniq)), fmt.Sprint("a", uniq)
	}
	nf := 3 + rng.Intn(4)
	for f := 0; f < nf; f++ {
		local := rng.Bool()
		if f == 0 {
			local = true
		} else if f == 1 {
			local = false
		}
		generic := rng.Chance(0.35)
		// a type parameter that occurs only in the result ([]T): nothing but the explicit
		// instantiation fixes it
		phantom := !generic && rng.Chance(0.25)
		n := 1 + rng.Intn(4)
		var pts []string
		for i := 0; i < n; i++ {
			pts = append(pts, core.Pick(rng, []string{"int", "string"}))
		}
		gpos := -1
		if generic {
			gpos = rng.Intn(n)
		}
		name := fmt.Sprintf("ExtF%d", f)
		if local {
			name = fmt.Sprintf("locF%d", f)
		}
		// Folang signature and Go implementation (returns its first argument)
		var sig, gparams, fmtArgs []string
		for i, t := range pts {
			if i == gpos {
				sig = append(sig, "T")
				gparams = append(gparams, fmt.Sprintf("a%d T", i))
			} else {
				sig = append(sig, t)
				gparams = append(gparams, fmt.Sprintf("a%d %s", i, t))
			}
			fmtArgs = append(fmtArgs, fmt.Sprintf("a%d", i))
		}
		ret := sig[0]
		tdecl, gdecl := "", ""
		if generic || phantom {
			tdecl, gdecl = "<T>", "[T any]"
		}
		line := fmt.Sprintf("  let %s%s: %s->%s\n", name, tdecl, strings.Join(sig, "->"), ret)
		impl := fmt.Sprintf("func %s%s(%s) %s {\n\tfmt.Println(%q, %s)\n\treturn a0\n}\n\n", name, gdecl, strings.Join(gparams, ", "), ret, name, strings.Join(fmtArgs, ", "))
		if phantom {
			line = fmt.Sprintf("  let %s<T>: %s->[]T\n", name, strings.Join(sig, "->"))
			impl = fmt.Sprintf("func %s[T any](%s) []T {\n\tfmt.Println(%q, %s)\n\tvar z T\n\treturn []T{z, z}\n}\n\n", name, strings.Join(gparams, ", "), name, strings.Join(fmtArgs, ", "))
		}
		qual := name
		if local {
			infoLocal.WriteString(line)
			wrap.WriteString(impl)
		} else {
			infoExt.WriteString(line)
			ext.WriteString(impl)
			qual = "extp." + name
		}
		show := func(t string) string {
			if t == "int" {
				return "\"%d\\n\""
			}
			return "\"%s\\n\""
		}
		retT := pts[0]
		// call forms
		call := func(form string, k int) {
			var vs, texts []string
			for _, t := range pts {
				v, tx := val(t)
				vs = append(vs, v)
				texts = append(texts, tx)
			}
			fn := qual
			inst := ""
			if generic {
				inst = "<" + pts[gpos] + ">"
			}
			if phantom {
				inst = "<string>"
			}
			var expr string
			switch form {
			case "full":
				expr = fn + " " + strings.Join(vs, " ")
			case "full-inst":
				expr = fn + inst + " " + strings.Join(vs, " ")
			case "partial":
				g := fmt.Sprintf("g%d", uniq)
				fmt.Fprintf(&body, "  let %s = %s %s\n", g, fn, strings.Join(vs[:k], " "))
				expr = g + " " + strings.Join(vs[k:], " ")
			case "partial-inst":
				g := fmt.Sprintf("g%d", uniq)
				fmt.Fprintf(&body, "  let %s = %s%s %s\n", g, fn, inst, strings.Join(vs[:k], " "))
				expr = g + " " + strings.Join(vs[k:], " ")
			case "piped":
				expr = vs[n-1] + " |> " + strings.TrimSpace(fn+" "+strings.Join(vs[:n-1], " "))
			case "piped-inst":
				expr = vs[n-1] + " |> " + strings.TrimSpace(fn+inst+" "+strings.Join(vs[:n-1], " "))
			}
			if phantom {
				fmt.Fprintf(&body, "  frt.Printf1 \"%%d\\n\" (slice.Length (%s))\n", expr)
				w.WriteString(name + " " + strings.Join(texts, " ") + "\n")
				w.WriteString("2\n")
				return
			}
			fmt.Fprintf(&body, "  frt.Printf1 %s (%s)\n", show(retT), expr)
			w.WriteString(name + " " + strings.Join(texts, " ") + "\n")
			w.WriteString(texts[0] + "\n")
		}
		if phantom {
			call("full-inst", 0)
			for k := 1; k < n; k++ {
				call("partial-inst", k)
			}
			call("piped-inst", 0)
			continue
		}
		call("full", 0)
		if generic {
			call("full-inst", 0)
		}
		for k := 1; k < n; k++ {
			call("partial", k)
			if generic && rng.Bool() {
				call("partial-inst", k)
			}
		}
		call("piped", 0)
		if generic {
			call("piped-inst", 0)
		}
	}
	// signatures with structured types: a function as result (one Go function returning a function,
	// not a two-parameter function), a function as parameter, tuple and slice, unit parameter / result
	{
		type shape struct{ sigLine, impl, use, want string }
		mkShapes := func(pfx, q string, k int) []shape {
			return []shape{
				{fmt.Sprintf("  let %sAdder: int->(int->int)\n", pfx),
					fmt.Sprintf("func %sAdder(a int) func(int) int {\n\tfmt.Println(\"%sAdder\", a)\n\treturn func(b int) int { return a + b }\n}\n\n", pfx, pfx),
					fmt.Sprintf("  let ad%d = %s%sAdder %d\n  frt.Printf1 \"%%d\\n\" (ad%d 5)\n  frt.Printf1 \"%%d\\n\" (ad%d 6)\n", k, q, pfx, 10+k, k, k),
					fmt.Sprintf("%sAdder %d\n%d\n%d\n", pfx, 10+k, 15+k, 16+k)},
				{fmt.Sprintf("  let %sAdder: int->(int->int)\n", pfx),
					fmt.Sprintf("func %sAdder(a int) func(int) int {\n\tfmt.Println(\"%sAdder\", a)\n\treturn func(b int) int { return a + b }\n}\n\n", pfx, pfx),
					fmt.Sprintf("  let pd%d = %d |> %s%sAdder\n  frt.Printf1 \"%%d\\n\" (pd%d 1)\n", k, 20+k, q, pfx, k),
					fmt.Sprintf("%sAdder %d\n%d\n", pfx, 20+k, 21+k)},
				{fmt.Sprintf("  let %sConst: string->(()->string)\n", pfx),
					fmt.Sprintf("func %sConst(s string) func() string {\n\tfmt.Println(\"%sConst\", s)\n\treturn func() string { return s + \"!\" }\n}\n\n", pfx, pfx),
					fmt.Sprintf("  let cf%d = %s%sConst \"k%d\"\n  frt.Println (cf%d ())\n", k, q, pfx, k, k),
					fmt.Sprintf("%sConst k%d\nk%d!\n", pfx, k, k)},
				{fmt.Sprintf("  let %sApply: (int->string)->int->string\n", pfx),
					fmt.Sprintf("func %sApply(f func(int) string, x int) string {\n\tfmt.Println(\"%sApply\", x)\n\treturn f(x)\n}\n\n", pfx, pfx),
					fmt.Sprintf("  frt.Println (%s%sApply (fun (i:int) -> frt.Sprintf1 \"<%%d>\" i) %d)\n", q, pfx, 30+k),
					fmt.Sprintf("%sApply %d\n<%d>\n", pfx, 30+k, 30+k)},
				{fmt.Sprintf("  let %sPair: int->int*string\n", pfx),
					fmt.Sprintf("func %sPair(a int) frt.Tuple2[int, string] {\n\tfmt.Println(\"%sPair\", a)\n\treturn frt.NewTuple2(a+1, \"p\")\n}\n\n", pfx, pfx),
					fmt.Sprintf("  let (pa%d, pb%d) = %s%sPair %d\n  frt.Printf1 \"%%d\\n\" pa%d\n  frt.Println pb%d\n", k, k, q, pfx, 40+k, k, k),
					fmt.Sprintf("%sPair %d\n%d\np\n", pfx, 40+k, 41+k)},
				{fmt.Sprintf("  let %sSum: []int->int\n  let %sNone: ()->int\n  let %sSink: int->()\n", pfx, pfx, pfx),
					fmt.Sprintf("func %sSum(xs []int) int {\n\tt := 0\n\tfor _, x := range xs {\n\t\tt += x\n\t}\n\tfmt.Println(\"%sSum\", len(xs))\n\treturn t\n}\n\nfunc %sNone() int {\n\tfmt.Println(\"%sNone\")\n\treturn 77\n}\n\nfunc %sSink(a int) {\n\tfmt.Println(\"%sSink\", a)\n}\n\n", pfx, pfx, pfx, pfx, pfx, pfx),
					fmt.Sprintf("  frt.Printf1 \"%%d\\n\" (%s%sSum [1; 2; %d])\n  frt.Printf1 \"%%d\\n\" (%s%sNone ())\n  %s%sSink %d\n", q, pfx, k, q, pfx, q, pfx, 50+k),
					fmt.Sprintf("%sSum 3\n%d\n%sNone\n77\n%sSink %d\n", pfx, 3+k, pfx, pfx, 50+k)},
			}
		}
		seenSig := map[string]bool{}
		for k, loc := range []bool{true, false, rng.Bool()} {
			pfx, q := "locS", ""
			if !loc {
				pfx, q = "ExtS", "extp."
			}
			sh := mkShapes(pfx, q, k+1)[rng.Intn(6)]
			if !seenSig[sh.sigLine] {
				seenSig[sh.sigLine] = true
				if loc {
					infoLocal.WriteString(sh.sigLine)
					wrap.WriteString(sh.impl)
				} else {
					infoExt.WriteString(sh.sigLine)
					ext.WriteString(sh.impl)
				}
			}
			body.WriteString(sh.use)
			w.WriteString(sh.want)
		}
	}
	// one short name declared twice with different signatures: unqualified in `_` first, then in
	// the named package (declared later): the unqualified name keeps denoting the local function
	{
		infoLocal.WriteString("  let SameName: string->int\n  let SameWrap: string->string->string\n")
		wrap.WriteString("func SameName(s string) int {\n\tfmt.Println(\"local SameName\", s)\n\treturn len(s)\n}\n\nfunc SameWrap(a string, b string) string {\n\tfmt.Println(\"local SameWrap\", a, b)\n\treturn a + b + a\n}\n\n")
		infoExt.WriteString("  let SameName: string->string\n  let SameWrap: string->int->string\n")
		ext.WriteString("func SameName(s string) string {\n\tfmt.Println(\"ext SameName\", s)\n\treturn s + \"?\"\n}\n\nfunc SameWrap(a string, n int) string {\n\tfmt.Println(\"ext SameWrap\", a, n)\n\treturn fmt.Sprint(a, n)\n}\n\n")
		body.WriteString("  frt.Printf1 \"%d\\n\" (SameName \"abc\" + SameName \"de\")\n  frt.Println (extp.SameName \"abc\")\n  frt.Println (\"x\" |> SameWrap \"[\")\n  frt.Println (extp.SameWrap \"n\" 4)\n")
		w.WriteString("local SameName abc\nlocal SameName de\n5\next SameName abc\nabc?\nlocal SameWrap [ x\n[x[\next SameWrap n 4\nn4\n")
	}
	fo.WriteString(infoLocal.String() + "\n" + infoExt.String() + "\n")
	// a foreign function generic in two type parameters, called with the complete list of type
	// arguments, with the first one only (the rest is inferred), and with none; applied, bound, piped
	fo.WriteString("package_info _ =\n  let MkPairTU<T, U>: T->U->T*U\n\nlet pairFull () =\n  MkPairTU<int, string> 1 \"a\"\n\nlet pairLead () =\n  MkPairTU<int> 2 \"b\"\n\nlet pairNone () =\n  MkPairTU 3 \"c\"\n\nlet pairBound () =\n  let f = MkPairTU<int> 4\n  f \"d\"\n\nlet pairPiped () =\n  \"e\" |> MkPairTU<int> 5\n\n")
	wrap.WriteString("func MkPairTU[T any, U any](a T, b U) frt.Tuple2[T, U] {\n\tfmt.Println(\"MkPairTU\", a, b)\n\treturn frt.NewTuple2(a, b)\n}\n\n")
	for _, fnm := range []string{"pairFull", "pairLead", "pairNone", "pairBound", "pairPiped"} {
		fmt.Fprintf(&body, "  let (%sA, %sB) = %s ()\n  frt.Printf1 \"%%d\\n\" %sA\n  frt.Println %sB\n", fnm, fnm, fnm, fnm, fnm)
	}
	w.WriteString("MkPairTU 1 a\n1\na\nMkPairTU 2 b\n2\nb\nMkPairTU 3 c\n3\nc\nMkPairTU 4 d\n4\nd\nMkPairTU 5 e\n5\ne\n")
	// a foreign (variadic) function declared again, later, with another arity: from there on the
	// later declaration is the one in force (small package_info blocks next to their use sites)
	fo.WriteString("package_info _ =\n  let VarCat: string->string->string->string\n\nlet useCat3 () =\n  VarCat \"a\" \"b\" \"c\"\n\n")
	fo.WriteString("package_info _ =\n  let VarCat: string->string->string\n\nlet useCat2 () =\n  VarCat \"x\" \"y\"\n\nlet useCatPiped () =\n  \"q\" |> VarCat \"p\"\n\n")
	wrap.WriteString("func VarCat(parts ...string) string {\n\tfmt.Println(\"VarCat\", len(parts))\n\tr := \"\"\n\tfor i, p := range parts {\n\t\tif i > 0 {\n\t\t\tr += \"+\"\n\t\t}\n\t\tr += p\n\t}\n\treturn r\n}\n\n")
	body.WriteString("  frt.Println (useCat3 ())\n  frt.Println (useCat2 ())\n  frt.Println (useCatPiped ())\n")
	w.WriteString("VarCat 3\na+b+c\nVarCat 2\nx+y\nVarCat 2\np+q\n")
	// fc allots 100 type variables per top-level definition: the calls are spread over functions of
	// about 20 statements (a let and the statement using it stay together)
	{
		lines := strings.Split(strings.TrimRight(body.String(), "\n"), "\n")
		var parts []string
		var cur []string
		word := regexp.MustCompile(`[A-Za-z_][A-Za-z0-9_]*`)
		bound := map[string]bool{}
		usedLater := func(from int) bool {
			for _, l := range lines[from:] {
				for _, w := range word.FindAllString(l, -1) {
					if bound[w] {
						return true
					}
				}
			}
			return false
		}
		for i, l := range lines {
			cur = append(cur, l)
			if strings.HasPrefix(l, "  let ") {
				if eq := strings.Index(l, " = "); eq > 0 {
					for _, w := range word.FindAllString(l[len("  let "):eq], -1) {
						bound[w] = true
					}
				}
			}
			if len(cur) >= 20 && !usedLater(i+1) || i == len(lines)-1 {
				bound = map[string]bool{}
				name := fmt.Sprintf("runPart%d", len(parts))
				fo.WriteString("let " + name + " () =\n" + strings.Join(cur, "\n") + "\n  ()\n\n")
				parts = append(parts, "  "+name+" ()\n")
				cur = nil
			}
		}
		body.Reset()
		body.WriteString(strings.Join(parts, ""))
	}
	fo.WriteString("let Run () =\n" + body.String() + "  frt.Printf1 \"%d\\n\" (slice.Length [1])\n  frt.Println \"end\"\n")
	w.WriteString("1\nend\n")
	fixImports := func(src string) string {
		if strings.Contains(src, "frt.") {
			return strings.Replace(src, "import \"fmt\"\n", "import (\n\t\"fmt\"\n\n\t\"github.com/karino2/folang/pkg/frt\"\n)\n", 1)
		}
		return src
	}
	return fo.String(), map[string]string{"wrapper.go": fixImports(wrap.String()), "extp/ext.go": fixImports(ext.String())}, w.String()
}

func runC03(r *core.Run, tier string) {
	env, err := scratch.New("C03")
	if err != nil {
		r.Inconclusive("scratch: " + err.Error())
		return
	}
	defer env.Close()
	fc, err := env.FC()
	if err != nil {
		r.Inconclusive("fc does not build: " + err.Error())
		return
	}
	n := 300
	if tier == "thorough" {
		n = 2000
	}
	r.Rule("a case is one package: (a) a declaration package - records, unions, a generic record and a generic union, functions with unit parameter / unit result, a package variable, with field / payload / parameter types drawn from 13 types (basic, float, slices, 2-/3-tuples, function types, another record) - linked with a generated Go client written only against the documented representation (a record, two functions and a package variable named like identifiers Go predeclares - min, max, len, clear, copy, ... - used under exactly those names; keyed struct literals, typed reads of every field, New_U_C called as a function or read as a variable as the rule says, type switch on U_C and .Value, functions called with parameters in order, package variable read); or (b) a package_info package - 3..6 signatures (package _ and a named package directory, plain or generic, arity 1..4) implemented in generated Go that logs name and arguments in the order received, called from Folang at every arity in full / partial / piped / explicitly instantiated forms with uniquely valued arguments; the program's stdout must equal the predicted text / call log; non-trivial = every package (>= 3 declarations or signatures); distinct by source hash")
	r.Assume("the client is compiled in the same package as gen_x.go, as the tutorial describes", "external package directories are imported by full path")
	var cases []*progCase
	extras := map[string]map[string]string{}
	for i := 0; i < n; i++ {
		name := fmt.Sprintf("p%d", i)
		src, client, want := c03DeclProgram(core.NewRand(r.SeedV, fmt.Sprintf("c03d/%d", i)), name)
		cases = append(cases, &progCase{name: name, src: src, expect: want, key: "decl:" + core.Hash(src)})
		extras[name] = map[string]string{"client.go": client}
	}
	for i := 0; i < n; i++ {
		name := fmt.Sprintf("p%d", n+i)
		src, ex, want := c03PkgInfoProgram(core.NewRand(r.SeedV, fmt.Sprintf("c03p/%d", i)), name)
		cases = append(cases, &progCase{name: name, src: src, expect: want, key: "pkginfo:" + core.Hash(src)})
		extras[name] = ex
	}
	transpileAll(fc, env.PkgAll(), env, "c03fc", cases)
	// compile and run with the extra Go files next to gen_x.go
	var live []*progCase
	for _, c := range cases {
		if c.status == "" {
			live = append(live, c)
		}
	}
	per := 60
	nb := (len(live) + per - 1) / per
	results := make([]*gobatch.Result, nb)
	scratch.Parallel(nb, 6, func(b int) {
		lo, hi := b*per, (b+1)*per
		if hi > len(live) {
			hi = len(live)
		}
		var progs []gobatch.Prog
		for _, c := range live[lo:hi] {
			files := map[string]string{"gen_x.go": c.gen}
			for n, t := range extras[c.name] {
				files[n] = t
			}
			progs = append(progs, gobatch.Prog{Name: c.name, Files: files})
		}
		results[b] = gobatch.Run(env, fmt.Sprintf("c03run-b%d", b), progs, 300)
	})
	for b, br := range results {
		if br.Inconcl != "" {
			r.Inconclusive("execution batch: " + br.Inconcl)
		}
		lo, hi := b*per, (b+1)*per
		if hi > len(live) {
			hi = len(live)
		}
		for _, c := range live[lo:hi] {
			if e, ok := br.CompileErr[c.name]; ok {
				c.status, c.detail = "go-compile-error", e
			} else if p, ok := br.Panic[c.name]; ok {
				c.status, c.detail, c.got = "panic", p, br.Output[c.name]
			} else if d, ok := br.Died[c.name]; ok {
				c.status, c.detail = "died", d
			} else if o, ok := br.Output[c.name]; ok {
				c.got = o
				if o == c.expect {
					c.status = "ok"
				} else {
					c.status, c.detail = "mismatch", classifyLogDiff(c.expect, o)
				}
			} else {
				c.status = "inconclusive"
			}
		}
	}
	okN := 0
	kinds := map[string]int64{}
	for _, c := range cases {
		r.Eval(c.key, true)
		kinds[strings.SplitN(c.key, ":", 2)[0]]++
		files := map[string]string{"x.fo": c.src, "gen_x.go": c.gen, "expected_stdout.txt": c.expect, "observed_stdout.txt": c.got, "detail.txt": c.status + "\n" + c.detail + "\n", "fc_diag.txt": c.fcDiag}
		for n, t := range extras[c.name] {
			files["go/"+n] = t
		}
		kind := strings.SplitN(c.key, ":", 2)[0]
		switch c.status {
		case "ok":
			okN++
		case "inconclusive":
			r.Inconclusive("watchdog / batch trouble on " + c.name)
		case "fc-rejected":
			r.Violate(kind+"-rejected:"+c.key, kind+" package rejected by fc: "+c.detail, files)
		case "go-compile-error":
			r.Violate(kind+"-go-compile:"+c.key, kind+" package: Go written against the documented representation does not compile with the emitted code: "+oneLineN(c.detail, 300), files)
		case "panic", "died":
			r.Violate(kind+"-run:"+c.key, kind+" package: program "+c.status+": "+oneLineN(c.detail, 200), files)
		case "mismatch":
			r.Violate(kind+"-output:"+c.key, kind+" package: "+c.detail, files)
		}
	}
	r.Set("packages", len(cases))
	r.Set("packages_behaving_as_documented", okN)
	r.Set("packages_by_kind", kinds)
	if len(cases) > n {
		r.Sample(map[string]any{"kind": "declaration package", "source": strings.Split(cases[0].src, "\n"), "client_go": strings.Split(extras[cases[0].name]["client.go"], "\n")})
		r.Sample(map[string]any{"kind": "package_info package", "source": strings.Split(cases[n].src, "\n"), "expected_call_log": strings.Split(cases[n].expect, "\n")})
	}
}
