package checks

import (
	"fmt"
	"os"
	"path/filepath"
	"regexp"
	"strings"

	"verif/internal/core"
	"verif/internal/fcx"
	"verif/internal/gobatch"
	"verif/internal/scratch"
)

func init() { register("C09", "exploration", runC09) }

type c09Arm struct {
	c    int // case index
	form int // 0 = bind, 1 = `_`, 2 = no payload written   (bare cases: always 2)
}

type c09Case struct {
	n       int    // number of cases in the union
	payload []bool // per case
	arms    []c09Arm
	deflt   bool
	dup     bool // some arm is written more than once (never together with a complete cover)
	ctx     int  // nesting context
	// a second match on the SAME union inside the same top-level definition
	second *c09Case
	shape  int // 1: second match inside the first arm of this one; 2: this one, then the second as the next statement; 3: this one in the then branch, the second in the else branch; 4: second first, then this one
}

var c09Names = []string{"Ca", "Cb", "Cc", "Cd", "Ce"}

const (
	ctxParam = iota
	ctxLetRHS
	ctxIfBranch
	ctxInnerArm
	ctxLambda
	ctxPipeArg
	ctxShadow      // after an earlier match (on another union) whose arm binder has the scrutinee's name
	ctxCallTarget  // the target is a call of a generic function: its type is known only after inference
	ctxBareLambda  // the target is an un-annotated lambda parameter (typed only by the enclosing call)
	ctxEncodedName // the union is called G_int and a generic union G<T> is instantiated at int next to it
	ctxGroupLater  // the union is declared later in a `type ... and ...` group than a generic union holding it; the target is that payload
	ctxGenericSelf // the union itself is generic (payloads of T), matched at the instantiation int
	numCtx
)

func (c c09Case) key() string {
	var b strings.Builder
	fmt.Fprintf(&b, "n%d:", c.n)
	for _, p := range c.payload {
		if p {
			b.WriteByte('p')
		} else {
			b.WriteByte('b')
		}
	}
	b.WriteByte(':')
	for _, a := range c.arms {
		fmt.Fprintf(&b, "%d%c", a.c, "xu-"[a.form])
	}
	if c.deflt {
		b.WriteString(":D")
	}
	fmt.Fprintf(&b, ":ctx%d", c.ctx)
	if c.dup {
		b.WriteString(":dup")
	}
	if c.second != nil {
		fmt.Fprintf(&b, ":shape%d:[%s]", c.shape, c.second.key())
	}
	return b.String()
}

func (c c09Case) uncovered() []string {
	if c.second != nil {
		first := c
		first.second = nil
		return append(first.uncovered(), c.second.uncovered()...)
	}
	if c.deflt {
		return nil
	}
	seen := make([]bool, c.n)
	for _, a := range c.arms {
		seen[a.c] = true
	}
	var out []string
	for i := 0; i < c.n; i++ {
		if !seen[i] {
			out = append(out, c09Names[i])
		}
	}
	return out
}

// expected result of applying the match to a value built with case i (payload 5):
func (c c09Case) expect(i int) int {
	for k, a := range c.arms {
		if a.c == i {
			if a.form == 0 {
				return 5 + 100*(k+1)
			}
			return 100 * (k + 1)
		}
	}
	return 999 // default arm
}

func (c c09Case) matchLines(target, indent string) string {
	var b strings.Builder
	fmt.Fprintf(&b, "%smatch %s with\n", indent, target)
	for k, a := range c.arms {
		nm := c09Names[a.c]
		switch a.form {
		case 0:
			fmt.Fprintf(&b, "%s| %s x -> x + %d\n", indent, nm, 100*(k+1))
		case 1:
			fmt.Fprintf(&b, "%s| %s _ -> %d\n", indent, nm, 100*(k+1))
		default:
			fmt.Fprintf(&b, "%s| %s -> %d\n", indent, nm, 100*(k+1))
		}
	}
	if c.deflt {
		fmt.Fprintf(&b, "%s| _ -> 999\n", indent)
	}
	return b.String()
}

func (c c09Case) source(pkg string) string {
	var b strings.Builder
	fmt.Fprintf(&b, "package %s\n\nimport frt\n", pkg)
	if c.ctx == ctxLambda || c.ctx == ctxCallTarget || c.ctx == ctxBareLambda {
		b.WriteString("import slice\n")
	}
	switch {
	case c.ctx == ctxGroupLater && c.second == nil:
		b.WriteString("\ntype Bx<T> =\n| Full of T\n| Ref of U\n| Nil\nand U =\n")
	case c.ctx == ctxGenericSelf && c.second == nil:
		b.WriteString("\ntype U<T> =\n")
	default:
		b.WriteString("\ntype U =\n")
	}
	for i := 0; i < c.n; i++ {
		if c.payload[i] && c.ctx == ctxGenericSelf && c.second == nil {
			fmt.Fprintf(&b, "| %s of T\n", c09Names[i])
		} else if c.payload[i] {
			fmt.Fprintf(&b, "| %s of int\n", c09Names[i])
		} else {
			fmt.Fprintf(&b, "| %s\n", c09Names[i])
		}
	}
	if c.ctx == ctxGenericSelf && c.second == nil {
		b.WriteString("\ntype W =\n| Wrap of U<int>\n| Other\n\n")
		// the same union matched at ANOTHER instantiation first: what is emitted for the match under
		// test (case labels U_C[int]) must not be taken from it
		b.WriteString("let pre (u:U<string>) =\n  match u with\n")
		for i := 0; i < c.n; i++ {
			if c.payload[i] {
				fmt.Fprintf(&b, "  | %s _ -> %d\n", c09Names[i], i)
			} else {
				fmt.Fprintf(&b, "  | %s -> %d\n", c09Names[i], i)
			}
		}
		b.WriteString("\nlet f (u:U<int>) =\n" + c.matchLines("u", "  "))
		b.WriteString("\nlet Run () =\n")
		for i := 0; i < c.n; i++ {
			if c.payload[i] {
				fmt.Fprintf(&b, "  frt.Printf1 \"%%d\\n\" (f (%s 5))\n", c09Names[i])
			} else {
				fmt.Fprintf(&b, "  frt.Printf1 \"%%d\\n\" (f (%s<int> ()))\n", c09Names[i])
			}
		}
		return b.String()
	}
	b.WriteString("\ntype W =\n| Wrap of U\n| Other\n\n")
	if c.second != nil {
		m2 := *c.second
		switch c.shape {
		case 1:
			// the second match sits in the first arm of the first one
			lines := strings.Split(strings.TrimRight(c.matchLines("u", "  "), "\n"), "\n")
			b.WriteString("let f (u:U) =\n" + lines[0] + "\n")
			head := lines[1][:strings.Index(lines[1], "->")+2]
			b.WriteString(head + "\n" + m2.matchLines("u", "    "))
			for _, l := range lines[2:] {
				b.WriteString(l + "\n")
			}
		case 2:
			b.WriteString("let f (u:U) =\n  frt.Printf1 \"%d\\n\" (g u)\n" + m2.matchLines("u", "  "))
			b.WriteString("\n")
			// g is defined before f in the file: insert it above
			src := b.String()
			at := strings.Index(src, "let f (u:U) =")
			src = src[:at] + "let g (u:U) =\n  0\n\n" + src[at:]
			b.Reset()
			b.WriteString(strings.Replace(src, "  frt.Printf1 \"%d\\n\" (g u)\n", strings.Replace(c.matchLines("u", "    "), "    match", "  let r1 =\n    match", 1)+"  frt.Printf1 \"%d\\n\" (r1 + g u)\n", 1))
		case 3:
			b.WriteString("let f (u:U) =\n  if 1 < 2 then\n" + c.matchLines("u", "    ") + "  else\n" + m2.matchLines("u", "    "))
		default:
			first := c
			first.second = nil
			b.WriteString("let f (u:U) =\n  let r1 =\n" + m2.matchLines("u", "    ") + "  frt.Printf1 \"%d\\n\" r1\n" + first.matchLines("u", "  "))
		}
		b.WriteString("\nlet Run () =\n  ()\n")
		return b.String()
	}
	switch c.ctx {
	case ctxParam:
		b.WriteString("let f (u:U) =\n" + c.matchLines("u", "  "))
	case ctxLetRHS:
		b.WriteString("let f (u:U) =\n  let r =\n" + c.matchLines("u", "    ") + "  r + 0\n")
	case ctxIfBranch:
		b.WriteString("let f (u:U) =\n  if 1 < 2 then\n" + c.matchLines("u", "    ") + "  else\n    0 - 1\n")
	case ctxInnerArm:
		b.WriteString("let g (w:W) =\n  match w with\n  | Wrap u ->\n" + c.matchLines("u", "    ") + "  | Other -> 0 - 1\n\nlet f (u:U) =\n  g (Wrap u)\n")
	case ctxLambda:
		b.WriteString("let f (u:U) =\n  let us = [u]\n  let rs = slice.Map (fun (v:U) ->\n" + c.matchLines("v", "                        ") + "                      ) us\n  slice.Head rs\n")
	case ctxPipeArg:
		b.WriteString("let h (k:int) (u:U) =\n" + c.matchLines("u", "  ") + "\nlet f (u:U) =\n  u |> h 3\n")
	case ctxEncodedName:
		// names that look like fc's own encodings of instantiated types: the case table of G<int>
		// must not be taken for the one of the union called G_int (annotated just before it)
		b.WriteString("type G<T> =\n| Gx of T\n| Gy\n\nlet pre (g:G<int>) =\n  match g with\n  | Gx _ -> 1\n  | Gy -> 2\n\n")
		b.WriteString("let f2 (u:U) (g:G<int>) =\n" + c.matchLines("u", "  ") + "\nlet f (u:U) =\n  f2 u (Gy<int> ())\n")
	case ctxGroupLater:
		// the value is typed through a constructor of the generic union, the target is the bound payload
		b.WriteString("let f (u:U) =\n  let b = if 1 < 2 then Ref<int> u else Full 5\n  match b with\n  | Ref i ->\n" + c.matchLines("i", "    ") + "  | Full v -> 0 - v\n  | Nil -> 0 - 2\n")
	case ctxBareLambda:
		b.WriteString("let f (u:U) =\n  let us = [u]\n  let rs = slice.Map (fun v ->\n" + c.matchLines("v", "                        ") + "                      ) us\n  slice.Head rs\n")
	case ctxCallTarget:
		b.WriteString("let f (u:U) =\n  let us = [u; u]\n" + c.matchLines("(slice.Head us)", "  "))
	case ctxShadow:
		b.WriteString("type V =\n| Va of int\n| Vb\n\ntype W2 =\n| Hold of V\n| Keep\n\nlet g2 (v:V) =\n  1\n\n")
		b.WriteString("let f2 (u:U) (w:W2) =\n  let r0 =\n    match w with\n    | Hold u -> g2 u\n    | Keep -> 0\n  frt.Printf1 \"%d\\n\" r0\n" + c.matchLines("u", "  ") + "\nlet f (u:U) =\n  f2 u Keep\n")
	}
	b.WriteString("\nlet Run () =\n")
	for i := 0; i < c.n; i++ {
		if c.payload[i] {
			fmt.Fprintf(&b, "  frt.Printf1 \"%%d\\n\" (f (%s 5))\n", c09Names[i])
		} else {
			fmt.Fprintf(&b, "  frt.Printf1 \"%%d\\n\" (f %s)\n", c09Names[i])
		}
	}
	if c.ctx == ctxEncodedName {
		return c09WordU.ReplaceAllString(b.String(), "G_int")
	}
	return b.String()
}

func c09Enumerate(tier string, rng *core.Rand) []c09Case {
	var out []c09Case
	maxN := 4
	if tier == "thorough" {
		maxN = 5
	}
	for n := 1; n <= maxN; n++ {
		for mask := 0; mask < 1<<n; mask++ {
			payload := make([]bool, n)
			for i := range payload {
				payload[i] = mask>>i&1 == 1
			}
			// all non-empty duplicate-free arm sequences
			var seqs [][]int
			var rec func(cur []int, used int)
			rec = func(cur []int, used int) {
				if len(cur) > 0 {
					seqs = append(seqs, append([]int(nil), cur...))
				}
				for i := 0; i < n; i++ {
					if used>>i&1 == 0 {
						rec(append(cur, i), used|1<<i)
					}
				}
			}
			rec(nil, 0)
			for _, seq := range seqs {
				// arm forms
				var formSets [][]int
				if n <= 4 {
					var recF func(i int, cur []int)
					recF = func(i int, cur []int) {
						if i == len(seq) {
							formSets = append(formSets, append([]int(nil), cur...))
							return
						}
						if payload[seq[i]] {
							for f := 0; f < 3; f++ {
								recF(i+1, append(cur, f))
							}
						} else {
							recF(i+1, append(cur, 2))
						}
					}
					recF(0, nil)
				} else {
					for v := 0; v < 2; v++ {
						fs := make([]int, len(seq))
						for i := range fs {
							if payload[seq[i]] {
								fs[i] = rng.Intn(3)
							} else {
								fs[i] = 2
							}
						}
						formSets = append(formSets, fs)
					}
				}
				for _, fs := range formSets {
					for _, d := range []bool{false, true} {
						arms := make([]c09Arm, len(seq))
						for i := range seq {
							arms[i] = c09Arm{seq[i], fs[i]}
						}
						out = append(out, c09Case{n: n, payload: payload, arms: arms, deflt: d, ctx: ctxParam})
					}
				}
			}
		}
	}
	// nesting contexts: every context x a seeded sample of the cases above (all contexts for small unions)
	base := len(out)
	nNest := 1500
	if tier == "thorough" {
		nNest = 20000
	}
	for k := 0; k < nNest; k++ {
		c := out[rng.Intn(base)]
		c.ctx = 1 + k%(numCtx-1)
		out = append(out, c)
	}
	// duplicated arms: an incomplete duplicate-free sequence padded with repetitions of its own arms
	// until there are at least as many arms as cases (counting arms is not covering cases)
	nDup := 600
	if tier == "thorough" {
		nDup = 8000
	}
	for k := 0; k < nDup; k++ {
		c := out[rng.Intn(base)]
		if c.deflt || c.n < 2 || len(c.uncovered()) == 0 {
			continue
		}
		arms := append([]c09Arm{}, c.arms...)
		for len(arms) < c.n+rng.Intn(2) {
			arms = append(arms, c.arms[rng.Intn(len(c.arms))])
		}
		core.Shuffle(rng, arms)
		c.arms = arms
		c.dup = true
		out = append(out, c)
	}
	// two matches on the same union inside one top-level definition, in four shapes: the
	// verdict on one match must not depend on what another match on that union covered
	nPairs := 3000
	if tier == "thorough" {
		nPairs = 40000
	}
	for k := 0; k < nPairs; k++ {
		a := out[rng.Intn(base)]
		if a.n < 2 {
			continue
		}
		// partner: same union shape
		var bb c09Case
		found := false
		for try := 0; try < 200 && !found; try++ {
			bb = out[rng.Intn(base)]
			if bb.n == a.n && fmt.Sprint(bb.payload) == fmt.Sprint(a.payload) {
				// favour pairs in which exactly one of the two is incomplete
				if (len(a.uncovered()) == 0) != (len(bb.uncovered()) == 0) || try > 100 {
					found = true
				}
			}
		}
		if !found {
			continue
		}
		a.ctx = ctxParam
		bcopy := bb
		a.second = &bcopy
		a.shape = 1 + k%4
		out = append(out, a)
	}
	return out
}

var c09WordU = regexp.MustCompile(`\bU\b`)

var c09UntypedRe = regexp.MustCompile(`Cast fail|Can't distinguish String var pattern|Unknown case rule|Unknown match case`)

var c09DiagRe = regexp.MustCompile(`match does not cover all cases\. Can't find case: (\w+)\.`)

func runC09(r *core.Run, tier string) {
	env, err := scratch.New("C09")
	if err != nil {
		r.Inconclusive("scratch: " + err.Error())
		return
	}
	defer env.Close()
	fc, err := env.FC()
	if err != nil {
		r.Inconclusive("fc does not build: " + err.Error())
		return
	}
	r.Rule("a case is one file holding one match on a union value, transpiled by its own fc process: every union of 1..4 cases (thorough: 5) x every payload/no-payload mix x every non-empty duplicate-free arm sequence x every arm form (bind / `_` / no payload) x with/without default, incomplete sequences padded with duplicated arms up to the number of cases, plus a seeded sample placed in 11 nesting contexts (the union declared later in a `type ... and ...` group than a generic union whose payload it is, matched as that bound payload; the union itself generic and matched at an instantiation; a union called G_int next to the instantiation G<int> of a generic union, an un-annotated lambda parameter as target, a target that is a call of a generic function, let right-hand side, if branch, inside another match arm, inside a lambda, in a piped partially applied function, after a match on another union whose arm binder carries the scrutinee's name); observed: exit status, diagnostic, presence of gen file; expected by set computation; a sample of accepted programs is compiled and run on one value per case; non-trivial = union with >= 2 cases; distinct by (union shape, arm sequence, forms, default, context)")
	r.Assume("the match target's union type is known when the match is parsed (annotated parameter or bound variable)", "arms never repeat a case (Go rejects duplicate type-switch cases)")
	cases := c09Enumerate(tier, core.NewRand(r.SeedV, "c09"))
	type obs struct {
		exit    int
		diag    string
		hasGen  bool
		gen     string
		wallOut bool
	}
	results := make([]obs, len(cases))
	base := env.Dir("c09")
	scratch.Parallel(len(cases), 16, func(i int) {
		d := filepath.Join(base, fmt.Sprintf("w%d", i%64), fmt.Sprintf("c%d", i))
		out := fcx.Transpile(fc, env.PkgAll(), d, map[string]string{"m.fo": cases[i].source(fmt.Sprintf("p%d", i))}, []string{"m.fo"}, nil, 20)
		g, ok := out.Gen["gen_m.go"]
		results[i] = obs{exit: out.Res.Exit, diag: out.Diag(), hasGen: ok, gen: g, wallOut: out.Res.WallOut}
		os.RemoveAll(d)
	})
	var accepted []int
	nAccept, nReject := 0, 0
	perCtx := map[string]int64{}
	for i, c := range cases {
		o := results[i]
		r.Eval(c.key(), c.n >= 2)
		if c.second != nil {
			perCtx[fmt.Sprintf("two-matches-shape%d", c.shape)]++
		} else {
			perCtx[fmt.Sprintf("ctx%d", c.ctx)]++
		}
		if o.wallOut {
			r.Inconclusive("watchdog on " + c.key())
			continue
		}
		unc := c.uncovered()
		files := map[string]string{"m.fo": c.source("main"), "observed.txt": fmt.Sprintf("exit=%d\ngen file present=%v\ndiagnostic=%s\n", o.exit, o.hasGen, o.diag)}
		if c.ctx == ctxBareLambda && c.second == nil && o.exit != 0 && !o.hasGen && c09UntypedRe.MatchString(o.diag) {
			// fc does not know the target's type when it parses the rules: complete and incomplete
			// matches alike are rejected before the coverage check (one known finding; an ACCEPTED
			// incomplete match in this context is still judged below)
			r.Count("matches_on_untyped_lambda_parameter_rejected_before_the_coverage_check", 1)
			r.Violate("untyped-match-target:bare-lambda-parameter", "a match on an un-annotated lambda parameter is rejected before the coverage check, whether or not it lists every case: "+oneLineN(o.diag, 160), files)
			continue
		}
		if len(unc) == 0 {
			nAccept++
			if o.exit != 0 || !o.hasGen {
				r.Violate("rejects-exhaustive:"+c.key(), fmt.Sprintf("exhaustive or default-terminated match rejected (exit=%d, gen=%v): %s", o.exit, o.hasGen, oneLineN(o.diag, 200)), files)
			} else if c.second == nil {
				accepted = append(accepted, i)
			}
		} else {
			nReject++
			m := c09DiagRe.FindStringSubmatch(o.diag)
			switch {
			case o.exit == 0 || o.hasGen:
				r.Violate("accepts-nonexhaustive:"+c.key(), fmt.Sprintf("non-exhaustive match without default accepted (exit=%d, gen file=%v), uncovered %v", o.exit, o.hasGen, unc), files)
			case m == nil:
				r.Violate("no-uncovered-diagnostic:"+c.key(), fmt.Sprintf("rejected without naming an uncovered case (uncovered %v): %s", unc, oneLineN(o.diag, 200)), files)
			default:
				found := false
				for _, u := range unc {
					if u == m[1] {
						found = true
					}
				}
				if !found {
					r.Violate("names-covered-case:"+c.key(), fmt.Sprintf("diagnostic names %s which is not uncovered (uncovered %v)", m[1], unc), files)
				}
			}
		}
	}
	// run a sample of the accepted programs: dispatch must reach the arm of the case the value was built with
	nRun := 240
	if tier == "thorough" {
		nRun = 2400
	}
	rng := core.NewRand(r.SeedV, "c09run")
	if len(accepted) > 0 {
		var progs []gobatch.Prog
		pick := map[int]bool{}
		for k := 0; k < nRun && k < len(accepted); k++ {
			idx := accepted[rng.Intn(len(accepted))]
			if pick[idx] {
				continue
			}
			pick[idx] = true
			progs = append(progs, gobatch.Prog{Name: fmt.Sprintf("p%d", idx), Files: map[string]string{"gen_m.go": results[idx].gen}})
		}
		// the generic-union contexts are only decided by running (Go accepts a case label of another
		// instantiation): the first 60 accepted programs of each are always executed
		perCtxRun := map[int]int{}
		for _, idx := range accepted {
			cx := cases[idx].ctx
			if (cx == ctxGroupLater || cx == ctxGenericSelf) && !pick[idx] && perCtxRun[cx] < 60 {
				perCtxRun[cx]++
				pick[idx] = true
				progs = append(progs, gobatch.Prog{Name: fmt.Sprintf("p%d", idx), Files: map[string]string{"gen_m.go": results[idx].gen}})
			}
		}
		nb := (len(progs) + 119) / 120
		bres := make([]*gobatch.Result, nb)
		scratch.Parallel(nb, 8, func(b int) {
			lo, hi := b*120, (b+1)*120
			if hi > len(progs) {
				hi = len(progs)
			}
			bres[b] = gobatch.Run(env, fmt.Sprintf("c09run%d", b), progs[lo:hi], 120)
		})
		ran := 0
		for _, br := range bres {
			if br.Inconcl != "" {
				r.Inconclusive("execution batch: " + br.Inconcl)
			}
			for idx := range pick {
				name := fmt.Sprintf("p%d", idx)
				c := cases[idx]
				var want strings.Builder
				for i := 0; i < c.n; i++ {
					if c.ctx == ctxShadow && c.second == nil {
						want.WriteString("0\n") // the earlier match of this context prints its result
					}
					fmt.Fprintf(&want, "%d\n", c.expect(i))
				}
				files := map[string]string{"m.fo": c.source(name), "gen_m.go": results[idx].gen}
				if e, ok := br.CompileErr[name]; ok {
					r.Violate("accepted-match-does-not-compile:"+c.key(), "accepted match: emitted Go does not compile: "+oneLineN(e, 300), files)
				} else if p, ok := br.Panic[name]; ok {
					r.Violate("accepted-match-panics:"+c.key(), "accepted match panics at run time (never-reached reached?): "+p, files)
				} else if d, ok := br.Died[name]; ok {
					r.Violate("accepted-match-dies:"+c.key(), "accepted match: program died: "+d, files)
				} else if o, ok := br.Output[name]; ok {
					ran++
					r.Count("executed_programs", 1)
					r.Count("executed_dispatches", int64(c.n))
					if strings.TrimRight(o, "\n") != strings.TrimRight(want.String(), "\n") {
						files["got.txt"], files["want.txt"] = o, want.String()
						r.Violate("wrong-dispatch:"+c.key(), fmt.Sprintf("match dispatched to the wrong arm: got %q want %q", o, want.String()), files)
					}
				}
			}
		}
		if ran == 0 {
			r.Inconclusive("no accepted program was executed")
		}
	}
	// "the never-reached panic is unreachable in accepted programs": complete matches on a generic
	// union at one instantiation, handed a value built at ANOTHER instantiation. Whoever rejects the
	// program (fc, or the Go compiler on the emitted code) keeps the statement; accepted, compiled and
	// run, the value meets no arm.
	{
		probes := []struct{ name, body string }{
			{"direct-argument", "let f (o:Gn<string>) =\n  match o with\n  | Gs s -> s\n  | Gz -> \"z\"\n\nlet Run () =\n  frt.Println (f (Gs 1))\n"},
			{"let-bound-value", "let f (o:Gn<string>) =\n  match o with\n  | Gs _ -> \"s\"\n  | Gz -> \"z\"\n\nlet Run () =\n  let v = Gs 1\n  frt.Println (f v)\n"},
			{"no-payload-case", "let f (o:Gn<string>) =\n  match o with\n  | Gz -> \"z\"\n  | Gs _ -> \"s\"\n\nlet Run () =\n  frt.Println (f (Gz<int> ()))\n"},
		}
		var progs []gobatch.Prog
		for i, pb := range probes {
			name := fmt.Sprintf("p%d", 900000+i)
			src := "package " + name + "\n\nimport frt\n\ntype Gn<T> =\n| Gs of T\n| Gz\n\n" + pb.body
			d := filepath.Join(base, "probe", name)
			out := fcx.Transpile(fc, env.PkgAll(), d, map[string]string{"m.fo": src}, []string{"m.fo"}, nil, 20)
			os.RemoveAll(d)
			if g, ok := out.Gen["gen_m.go"]; ok && out.Res.Exit == 0 {
				progs = append(progs, gobatch.Prog{Name: name, Files: map[string]string{"gen_m.go": g, "m.fo": src}})
			} else {
				r.Count("instantiation_mismatch_probes_rejected_by_fc", 1)
			}
		}
		if len(progs) > 0 {
			br := gobatch.Run(env, "c09probe", progs, 120)
			if br.Inconcl != "" {
				r.Inconclusive("probe batch: " + br.Inconcl)
			}
			for _, pg := range progs {
				var idx int
				fmt.Sscanf(pg.Name, "p%d", &idx)
				pb := probes[idx-900000]
				r.Eval("instantiation-mismatch:"+pb.name, true)
				switch {
				case br.CompileErr[pg.Name] != "":
					r.Count("instantiation_mismatch_probes_rejected_by_the_go_compiler", 1)
				case strings.Contains(br.Panic[pg.Name], "Never reached"):
					r.Count("instantiation_mismatch_probes_reaching_the_never_reached_panic", 1)
					r.Violate("never-reached:generic-union-instantiation-mismatch:"+pb.name, "accepted program (by fc and by the Go compiler) reaches the never-reached panic: a complete match on Gn<string> is handed a Gn<int> value: "+oneLineN(br.Panic[pg.Name], 120), pg.Files)
				case br.Panic[pg.Name] != "" || br.Died[pg.Name] != "":
					r.Violate("accepted-match-panics:probe:"+pb.name, "accepted program dies: "+oneLineN(br.Panic[pg.Name]+br.Died[pg.Name], 200), pg.Files)
				default:
					r.Count("instantiation_mismatch_probes_that_ran_without_panic", 1)
				}
			}
		}
	}
	r.Set("must_accept", nAccept)
	r.Set("must_reject", nReject)
	r.Set("cases_by_context", perCtx)
	r.Set("fc_processes", len(cases))
	for _, i := range []int{3, len(cases) / 3, len(cases) - 1} {
		c := cases[i]
		r.Sample(map[string]any{"key": c.key(), "match": strings.Split(strings.TrimSpace(c.matchLines("u", "")), "\n"), "uncovered": c.uncovered(),
			"observed_exit": results[i].exit, "observed_diag": oneLineN(results[i].diag, 120), "gen_present": results[i].hasGen})
	}
	r.Exhaustive(false)
	r.Set("exhaustive_part", "all matches on unions of 1..4 cases in the parameter context (thorough: sampled arm forms for 5 cases)")
}
