package checks

import (
	"fmt"
	"path/filepath"

	"verif/internal/core"
	"verif/internal/harness"
	"verif/internal/scratch"
)

func init() {
	register("C12", "exploration", runC12)
	register("C13", "exploration", runC13)
	register("C14", "exploration", runC14)
}

func buildLibh(r *core.Run) (*scratch.Env, string, bool) {
	env, err := scratch.New(r.Prop)
	if err != nil {
		r.Inconclusive("scratch: " + err.Error())
		return nil, "", false
	}
	ws, err := harness.Materialize(env, "libh")
	if err != nil {
		env.Close()
		r.Inconclusive("materialize: " + err.Error())
		return nil, "", false
	}
	bin := filepath.Join(env.Bin, "libh")
	if err := harness.Build(env, ws, bin); err != nil {
		// the harness uses only the documented signatures of pkg/*; a build
		// failure means the tree does not offer them (or the toolchain failed)
		env.Close()
		r.Inconclusive("harness build failed: " + err.Error())
		return nil, "", false
	}
	return env, bin, true
}

func foldReport(r *core.Run, rep *harness.Report) {
	for k, v := range rep.Stats {
		r.Set(k, v)
	}
	for _, s := range rep.Samples {
		r.Sample(s)
	}
	r.EvalN(rep.Evals, rep.Distinct, "case")
}

func runC12(r *core.Run, tier string) {
	env, bin, ok := buildLibh(r)
	if !ok {
		return
	}
	defer env.Close()
	n, depth, cpu := 2000, 3, 600
	if tier == "thorough" {
		n, depth, cpu = 100000, 3, 7200
	}
	r.Rule("a case is one straight-line history of 30..200 calls to pkg/slice functions (arguments drawn from the pool of all values produced so far, biased to recent values and to values with spare capacity) or one exhaustively enumerated call sequence of length <= depth over 3 starting values; after every call every live value is compared with the snapshot taken when it was produced; non-trivial = at least one call received an argument with spare capacity or one sharing its backing array with another live value; distinct by hash of the call sequence")
	r.Assume("snapshots are element-wise copies; element types int, string and a 2-field record", "slice values are produced only by the library or by literals (cap == len), as in a Folang program")
	rep, _ := harness.Run(r, bin, []string{"slicepure", "-seed", fmt.Sprint(r.SeedV), "-n", fmt.Sprint(n), "-depth", fmt.Sprint(depth), "-workers", "12", "-exhstr", tierFlag(tier)}, cpu, "libh slicepure")
	foldReport(r, rep)
	if rep.Done {
		if v, _ := rep.Stats["calls_with_spare_capacity_argument"].(float64); v < 100 {
			r.Inconclusive("monitor saw fewer than 100 calls on values with spare capacity")
		}
	}
}

func tierFlag(tier string) string {
	if tier == "thorough" {
		return "1"
	}
	return "0"
}

func runC13(r *core.Run, tier string) {
	env, bin, ok := buildLibh(r)
	if !ok {
		return
	}
	defer env.Close()
	maxInt, maxStr, n := 7, 5, 0
	if tier == "thorough" {
		maxInt, maxStr, n = 9, 6, 50000
	}
	r.Rule("a case is one (function, input) pair: every int slice of length 0..maxint over {0,1,2} and every string slice of length 0..maxstr over {\"\",\"a\",\"b\"} x all valid indices/counts x a family of predicates/projections/folders with call-order recording, compared with an independent index-loop model; non-trivial = input slice non-empty (or a multi-element sort); distinct because inputs are enumerated without repetition")
	r.Assume("out-of-domain calls (Head/Tail/Last/PopLast of empty, Take n>len, Item out of range, Zip of unequal lengths, negative counts) are not made", "Sort/SortBy are required to be an ascending permutation, not stable")
	rep, _ := harness.Run(r, bin, []string{"slicespec", "-seed", fmt.Sprint(r.SeedV), "-maxint", fmt.Sprint(maxInt), "-maxstr", fmt.Sprint(maxStr), "-n", fmt.Sprint(n)}, 3600, "libh slicespec")
	foldReport(r, rep)
	r.Exhaustive(true)
	if rep.Done {
		if v, _ := rep.Stats["functions_checked"].(float64); v < 29 {
			r.Inconclusive(fmt.Sprintf("only %v of the slice functions were exercised", v))
		}
	}
}

func runC14(r *core.Run, tier string) {
	env, bin, ok := buildLibh(r)
	if !ok {
		return
	}
	defer env.Close()
	n := 20000
	if tier == "thorough" {
		n = 100000
	}
	r.Rule("a case is one dict operation history (40 operations over 2..8 keys of type string, int or tuple, every write a unique value) replayed against an association-list model, or one strings/buf/frt call compared with its Go counterpart / counting thunks; non-trivial = history touching >= 2 keys, or non-empty string and separator; distinct by operation sequence / argument tuple")
	r.Assume("enumerations (Keys/Values/KVs) are compared as multisets: order is unspecified", "float display form is not asserted, only that formatting does not fail")
	rep, _ := harness.Run(r, bin, []string{"libs", "-seed", fmt.Sprint(r.SeedV), "-n", fmt.Sprint(n)}, 3600, "libh libs")
	foldReport(r, rep)
}
