package checks

import (
	"fmt"
	"os"
	"path/filepath"
	"strings"

	"verif/internal/core"
	"verif/internal/fcx"
	"verif/internal/fo"
	"verif/internal/scratch"
)

func init() { register("C17", "exploration", runC17) }

// tinyPkgInfo: tinyfo cannot parse pkg_all.foi (type Dict<K, V>), so both compilers
// get the same dict-free concatenation of the other .foi files.
func tinyPkgInfo(env *scratch.Env) (string, error) {
	var b strings.Builder
	for _, p := range []string{"frt", "buf", "slice", "strings", "sys"} {
		c, err := os.ReadFile(filepath.Join(env.Repo, "pkg", p, p+".foi"))
		if err != nil {
			return "", err
		}
		b.Write(c)
		b.WriteString("\n")
	}
	path := filepath.Join(env.Root, "tiny_pkg.foi")
	return path, os.WriteFile(path, []byte(b.String()), 0o644)
}

func cloneCases(cs []*progCase, suffix string) []*progCase {
	out := make([]*progCase, len(cs))
	for i, c := range cs {
		d := *c
		d.status, d.detail, d.gen, d.got = "", "", "", ""
		_ = suffix
		out[i] = &d
	}
	return out
}

func runC17(r *core.Run, tier string) {
	env, err := scratch.New("C17")
	if err != nil {
		r.Inconclusive("scratch: " + err.Error())
		return
	}
	defer env.Close()
	tiny, err := env.TinyFo()
	if err != nil {
		r.Violate("tinyfo-does-not-build", "tinyfo does not build: "+oneLineN(err.Error(), 300), map[string]string{"error.txt": err.Error()})
		return
	}
	fc, err := env.FC()
	if err != nil {
		r.Inconclusive("fc does not build: " + err.Error())
		return
	}
	pkg, err := tinyPkgInfo(env)
	if err != nil {
		r.Inconclusive(err.Error())
		return
	}
	n := 500
	if tier == "thorough" {
		n = 6000
	}
	r.Rule("a case is one generated program of the tinyfo profile (annotated functions, + - comparisons && || not, = <>, if/elif/else and if-only, non-generic records and unions with match (bind / _ / no payload / default), slice literals, pairs and 2-destructuring, pipes, partial application, calls to frt/slice/strings through package_info); it is transpiled by the rebuilt tinyfo AND by the rebuilt fc, both outputs are compiled and run, and both stdouts are compared with each other and with the reference evaluator; a C17 violation is tinyfo != (fc = reference); in addition every chain of 1..3 (thorough 4) binary operators of the subset is translated by both compilers and the emitted groupings are compared as text; non-trivial = at least 3 tracer events predicted; distinct by source hash")
	r.Assume("both compilers receive the same dict-free concatenation of frt/buf/slice/strings/sys .foi files", "fc != reference is reported under C01, not here")
	cases, discarded, why := genCases(r.SeedV, "c17", fo.ProfileTiny, n, 0)
	tc := cases
	fcCases := cloneCases(cases, "fc")
	transpileAll(tiny, pkg, env, "c17tiny", tc)
	transpileAll(fc, pkg, env, "c17fc", fcCases)
	for _, s := range runAll(env, "c17tinyrun", tc, 100) {
		r.Inconclusive("tinyfo execution batch: " + s)
	}
	for _, s := range runAll(env, "c17fcrun", fcCases, 100) {
		r.Inconclusive("fc execution batch: " + s)
	}
	agree3, fcOff := 0, 0
	feats := map[string]int64{}
	st := map[string]int64{}
	for i, c := range tc {
		f := fcCases[i]
		ev := strings.Count(c.expect, "\nE ") + 1
		r.Eval(c.key, ev >= 3)
		for k, v := range c.feats {
			feats[k] += int64(v)
		}
		st["tinyfo:"+c.status]++
		st["fc:"+f.status]++
		if f.status != "ok" {
			// fc itself disagrees with the reference: not decidable here (C01's business)
			fcOff++
			continue
		}
		files := map[string]string{"x.fo": c.src, "expected_stdout.txt": c.expect, "tinyfo_stdout.txt": c.got, "fc_stdout.txt": f.got, "gen_x_tinyfo.go": c.gen, "gen_x_fc.go": f.gen, "detail.txt": c.status + "\n" + c.detail + "\n", "tinyfo_diag.txt": c.fcDiag}
		switch c.status {
		case "ok":
			agree3++
		case "inconclusive":
			r.Inconclusive("watchdog on " + c.name)
		case "fc-rejected":
			r.Violate("tinyfo-rejects:"+c.key, "program of the tinyfo subset (accepted and run correctly by fc) rejected by tinyfo: "+c.detail, files)
		case "go-compile-error":
			r.Violate("tinyfo-go-compile:"+c.key, "Go emitted by tinyfo does not compile: "+oneLineN(c.detail, 300), files)
		case "panic", "died":
			r.Violate("tinyfo-run:"+c.key, "program compiled from tinyfo output "+c.status+": "+oneLineN(c.detail, 200), files)
		case "mismatch":
			r.Violate("tinyfo-output:"+c.key, "tinyfo output behaves differently from fc output and the reference: "+c.detail, files)
		}
	}
	c17Chains(r, env, tiny, fc, tier)
	r.Set("programs", len(tc))
	r.Set("three_way_agreement", agree3)
	r.Set("fc_disagrees_with_reference_not_judged", fcOff)
	r.Set("outcomes", st)
	r.Set("generator_discards", discarded)
	if discarded > 0 {
		r.Set("generator_discard_reasons", why)
	}
	r.Set("feature_histogram", feats)
	if fcOff*10 > len(tc) {
		r.Inconclusive("fc disagrees with the reference on more than 10% of the programs")
	}
	if agree3 == 0 {
		r.Inconclusive("no program reached three-way agreement")
	}
	if len(tc) > 0 {
		r.Sample(map[string]any{"source": strings.Split(tc[0].src, "\n"), "predicted_stdout": strings.Split(tc[0].expect, "\n")})
	}
}

// c17Chains: every chain of 1..3 (thorough 4) binary operators of the tinyfo subset over plain
// variables, translated by tinyfo and by fc: the emitted return expression (its grouping) must be
// the same text. Neither compiler checks the operand types of a chain, so all chains are used.
func c17Chains(r *core.Run, env *scratch.Env, tiny, fc, tier string) {
	ops := []string{"+", "-", "<", ">", "<=", ">=", "=", "<>", "&&", "||"}
	maxLen := 3
	if tier == "thorough" {
		maxLen = 4
	}
	var chains []string
	var rec func(cur string, n int)
	rec = func(cur string, n int) {
		if n > 0 {
			chains = append(chains, cur)
		}
		if n == maxLen {
			return
		}
		for _, o := range ops {
			rec(cur+" "+o+" "+string(rune('b'+n)), n+1)
		}
	}
	rec("a", 0)
	const params = "(a:int) (b:int) (c:int) (d:int) (e:int)"
	type res struct{ tiny, fc map[string]string }
	nb := (len(chains) + 199) / 200
	out := make([]res, nb)
	rejected := make([]string, nb)
	scratch.Parallel(nb, 8, func(b int) {
		lo, hi := b*200, (b+1)*200
		if hi > len(chains) {
			hi = len(chains)
		}
		var src strings.Builder
		src.WriteString("package main\n\n")
		for i := lo; i < hi; i++ {
			fmt.Fprintf(&src, "let c%d %s =\n  %s\n\n", i, params, chains[i])
		}
		grab := func(bin, tag string) map[string]string {
			o := fcx.Transpile(bin, "", filepath.Join(env.Dir("c17chains"), fmt.Sprintf("%s%d", tag, b)), map[string]string{"x.fo": src.String()}, []string{"x.fo"}, nil, 60)
			got := map[string]string{}
			if o.Res.Exit != 0 || o.Gen["gen_x.go"] == "" {
				rejected[b] += tag + ": " + oneLineN(o.Diag(), 160) + "; "
				return got
			}
			lines := strings.Split(o.Gen["gen_x.go"], "\n")
			for i, l := range lines {
				if m := c08FuncRe.FindStringSubmatch(l); m != nil && i+1 < len(lines) {
					got[m[1]] = strings.Join(strings.Fields(strings.TrimPrefix(strings.TrimSpace(lines[i+1]), "return ")), "")
				}
			}
			return got
		}
		out[b] = res{grab(tiny, "tinyfo"), grab(fc, "fc")}
	})
	compared := 0
	for i, ch := range chains {
		b := i / 200
		name := fmt.Sprintf("c%d", i)
		t, okT := out[b].tiny[name]
		f, okF := out[b].fc[name]
		r.Eval("chain:"+ch, strings.Count(ch, " ") >= 4)
		if !okT || !okF {
			continue
		}
		compared++
		if t != f {
			r.Violate("tinyfo-chain-grouping:"+ch, fmt.Sprintf("operator chain `%s`: tinyfo emits %s, fc emits %s", ch, t, f), map[string]string{"chain.txt": ch + "\ntinyfo: " + t + "\nfc:     " + f + "\n"})
		}
	}
	for b, why := range rejected {
		if why != "" {
			r.Count("chain_batches_rejected", 1)
			r.Sample(map[string]any{"chain_batch": b, "rejected": why})
		}
	}
	r.Set("operator_chains_compared_tinyfo_vs_fc", compared)
	if compared < len(chains)/2 {
		r.Inconclusive("fewer than half of the operator chains could be compared (a batch was rejected)")
	}
}
