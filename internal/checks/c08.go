package checks

import (
	"fmt"
	"path/filepath"
	"regexp"
	"strings"
	"sync"

	"verif/internal/core"
	"verif/internal/fcx"
	"verif/internal/scratch"
)

func init() { register("C08", "exploration", runC08) }

// ---- reference: the table exactly as the property states it ----------------
// from loosest: |> ; then && || < > <= >= ; then = <> ; then + - ; then * /

var c08Rank = map[string]int{"|>": 1, "&&": 2, "||": 2, "<": 2, ">": 2, "<=": 2, ">=": 2, "=": 3, "<>": 3, "+": 4, "-": 4, "*": 5, "/": 5}
var c08Ops = []string{"&&", "||", "<", ">", "<=", ">=", "=", "<>", "+", "-", "*", "/"}

type c08Operand struct {
	src string // Folang text
	ren string // expected Go rendering (no white space)
	ty  string // "int" | "bool" | "" (flexible atom: takes whatever type is required)
}

// c08Render groups a flat chain by splitting at the LAST operator of the
// LOWEST rank (left associativity), recursively. Deliberately not precedence
// climbing, so that it shares no algorithm with the parser under test.
func c08Render(opnds []c08Operand, ops []string) string {
	if len(ops) == 0 {
		return opnds[0].ren
	}
	at := 0
	for i, o := range ops {
		if c08Rank[o] <= c08Rank[ops[at]] {
			at = i
		}
	}
	l := c08Render(opnds[:at+1], ops[:at])
	r := c08Render(opnds[at+1:], ops[at+1:])
	switch ops[at] {
	case "=":
		return "frt.OpEqual(" + l + "," + r + ")"
	case "<>":
		return "frt.OpNotEqual(" + l + "," + r + ")"
	case "|>":
		return "frt.Pipe(" + l + "," + r + ")"
	}
	return "(" + l + ops[at] + r + ")"
}

// c08Type reports the type of the chain under the reference grouping ("" if ill-typed),
// assigning flexible atoms the type their context requires.
func c08Type(opnds []c08Operand, ops []string, need string) string {
	if len(ops) == 0 {
		t := opnds[0].ty
		if t == "" {
			if need == "" {
				return "int"
			}
			return need
		}
		if need != "" && t != need {
			return ""
		}
		return t
	}
	at := 0
	for i, o := range ops {
		if c08Rank[o] <= c08Rank[ops[at]] {
			at = i
		}
	}
	var childNeed, res string
	switch ops[at] {
	case "+", "-", "*", "/":
		childNeed, res = "int", "int"
	case "<", ">", "<=", ">=":
		childNeed, res = "int", "bool"
	case "&&", "||":
		childNeed, res = "bool", "bool"
	case "=", "<>":
		lt := c08Type(opnds[:at+1], ops[:at], "")
		if lt == "" {
			return ""
		}
		childNeed, res = lt, "bool"
	default:
		return ""
	}
	if need != "" && need != res {
		return ""
	}
	if c08Type(opnds[:at+1], ops[:at], childNeed) == "" || c08Type(opnds[at+1:], ops[at+1:], childNeed) == "" {
		return ""
	}
	return res
}

type c08Case struct {
	name    string
	body    string // right-hand side lines (already indented)
	want    string
	wellTy  bool
	kind    string
	nontriv bool
	desc    string
}

const c08Params = "(a:int) (b:int) (c:int) (d:int) (e:int) (k:int) (g:int->int) (h:int->int->int) (p:int->bool)"

var c08Atoms = []string{"a", "b", "c", "d", "e", "k"}

func atomOps(n int) []c08Operand {
	out := make([]c08Operand, n)
	for i := range out {
		out[i] = c08Operand{src: c08Atoms[i], ren: c08Atoms[i]}
	}
	return out
}

func chainSrc(opnds []c08Operand, ops []string, sep string) string {
	var b strings.Builder
	b.WriteString(opnds[0].src)
	for i, o := range ops {
		b.WriteString(sep)
		b.WriteString(o)
		b.WriteString(" ")
		b.WriteString(opnds[i+1].src)
	}
	return b.String()
}

func c08Generate(tier string, rng *core.Rand) []c08Case {
	var cases []c08Case
	add := func(kind string, opnds []c08Operand, ops []string, sep string, pipeTail int) {
		src := chainSrc(opnds, ops, sep)
		want := c08Render(opnds, ops)
		for i := 0; i < pipeTail; i++ {
			src += sep + "|> g"
			want = "frt.Pipe(" + want + ",g)"
		}
		wt := c08Type(opnds, ops, "") != ""
		if pipeTail > 0 {
			wt = c08Type(opnds, ops, "int") != ""
		}
		cases = append(cases, c08Case{name: fmt.Sprintf("c%d", len(cases)), body: "  " + src, want: want, wellTy: wt, kind: kind,
			nontriv: len(ops)+pipeTail >= 2, desc: strings.ReplaceAll(src, "\n", " ⏎ ")})
	}
	// 1. exhaustive: every sequence of 1..4 (1..5 in thorough) of the 12 non-pipe operators, atomic operands
	maxExh := 4
	if tier == "thorough" {
		maxExh = 5
	}
	var rec func(ops []string)
	rec = func(ops []string) {
		if len(ops) > 0 {
			add("atomic-chain", atomOps(len(ops)+1), ops, " ", 0)
		}
		if len(ops) == maxExh {
			return
		}
		for _, o := range c08Ops {
			rec(append(ops[:len(ops):len(ops)], o))
		}
	}
	rec(nil)
	// 2. operand forms on every chain of <= 2 operators (and 3 in thorough)
	forms := func(i int) []c08Operand {
		v := c08Atoms[i]
		w := c08Atoms[(i+1)%5]
		return []c08Operand{
			{src: v, ren: v},
			{src: "7", ren: "7", ty: "int"},
			{src: "g " + v, ren: "g(" + v + ")", ty: "int"},
			{src: "h " + v + " " + w, ren: "h(" + v + "," + w + ")", ty: "int"},
			{src: "not p " + v, ren: "frt.OpNot(p(" + v + "))", ty: "bool"},
			{src: "(" + v + ")", ren: v},
			{src: "(" + v + " + " + w + ")", ren: "(" + v + "+" + w + ")", ty: "int"},
			{src: "(" + v + " < " + w + " && " + v + " = " + w + ")", ren: "((" + v + "<" + w + ")&&frt.OpEqual(" + v + "," + w + "))", ty: "bool"},
			{src: "((" + v + " * " + w + "))", ren: "(" + v + "*" + w + ")", ty: "int"},
			{src: "not (" + v + " = " + w + ")", ren: "frt.OpNot(frt.OpEqual(" + v + "," + w + "))", ty: "bool"},
			{src: "(g " + v + " - " + w + ")", ren: "(g(" + v + ")-" + w + ")", ty: "int"},
		}
	}
	maxFormOps := 2
	if tier == "thorough" {
		maxFormOps = 3
	}
	var recF func(ops []string)
	recF = func(ops []string) {
		if len(ops) > 0 {
			n := len(ops) + 1
			// every operand position takes every form while the others stay atomic,
			// plus all-positions-same-form
			for pos := 0; pos < n; pos++ {
				for fi, f := range forms(pos) {
					if fi == 0 {
						continue
					}
					o := atomOps(n)
					o[pos] = f
					add("operand-form", o, ops, " ", 0)
				}
			}
			for fi := 1; fi < len(forms(0)); fi++ {
				o := make([]c08Operand, n)
				for i := range o {
					o[i] = forms(i)[fi]
				}
				add("operand-form-all", o, ops, " ", 0)
			}
		}
		if len(ops) == maxFormOps {
			return
		}
		for _, o := range c08Ops {
			recF(append(ops[:len(ops):len(ops)], o))
		}
	}
	recF(nil)
	// 3. pipe after every chain of <= 2 operators (one and two stages), line break before every operator
	var recP func(ops []string)
	recP = func(ops []string) {
		add("pipe-tail", atomOps(len(ops)+1), ops, " ", 1)
		add("pipe-tail2", atomOps(len(ops)+1), ops, " ", 2)
		if len(ops) > 0 {
			add("linebreak", atomOps(len(ops)+1), ops, "\n  ", 0)
			add("linebreak-pipe", atomOps(len(ops)+1), ops, "\n  ", 1)
		}
		if len(ops) == 2 {
			return
		}
		for _, o := range c08Ops {
			recP(append(ops[:len(ops):len(ops)], o))
		}
	}
	recP(nil)
	// 5. white space around operators: every chain of <= 2 operators in five spacings (none, only
	// before, only after, several blanks, tabs) over four operand sets (names, integer literals,
	// an application followed by literals, parenthesised names); blanks never change the grouping
	spacings := []struct{ name, pre, post string }{{"tight", "", ""}, {"before-only", " ", ""}, {"after-only", "", " "}, {"wide", "  ", "   "}, {"tabs", "\t", "\t"}}
	opSets := []func(i int) c08Operand{
		func(i int) c08Operand { return c08Operand{src: c08Atoms[i], ren: c08Atoms[i]} },
		func(i int) c08Operand { v := fmt.Sprint(i + 1); return c08Operand{src: v, ren: v, ty: "int"} },
		func(i int) c08Operand {
			if i == 0 {
				return c08Operand{src: "g a", ren: "g(a)", ty: "int"}
			}
			v := fmt.Sprint(i)
			return c08Operand{src: v, ren: v, ty: "int"}
		},
		func(i int) c08Operand { return c08Operand{src: "(" + c08Atoms[i] + ")", ren: c08Atoms[i]} },
	}
	var recS func(ops []string)
	recS = func(ops []string) {
		if len(ops) > 0 {
			for _, sp := range spacings {
				for si, mk := range opSets {
					o := make([]c08Operand, len(ops)+1)
					for i := range o {
						o[i] = mk(i)
					}
					var b strings.Builder
					b.WriteString(o[0].src)
					for i, op := range ops {
						b.WriteString(sp.pre + op + sp.post + o[i+1].src)
					}
					src := b.String()
					// spellings that are other tokens of the language, not this chain: `name<` opens a
					// type-argument list, `//` and `/*` open comments, `*)`-free here
					if (sp.pre == "" && si != 1 && strings.Contains(src, "<")) || strings.Contains(src, "//") || strings.Contains(src, "/*") {
						continue
					}
					cases = append(cases, c08Case{name: fmt.Sprintf("c%d", len(cases)), body: "  " + src, want: c08Render(o, ops), wellTy: c08Type(o, ops, "") != "", kind: "spacing-" + sp.name,
						nontriv: true, desc: strings.ReplaceAll(src, "\t", "⇥")})
				}
			}
		}
		if len(ops) == 2 {
			return
		}
		for _, o := range c08Ops {
			recS(append(ops[:len(ops):len(ops)], o))
		}
	}
	recS(nil)
	// 4. seeded sample of longer chains (5..7 operators) with mixed operand forms
	nLong := 600
	if tier == "thorough" {
		nLong = 6000
	}
	for k := 0; k < nLong; k++ {
		n := 5 + rng.Intn(3)
		ops := make([]string, n)
		for i := range ops {
			ops[i] = core.Pick(rng, c08Ops)
		}
		o := make([]c08Operand, n+1)
		for i := range o {
			fs := forms(i % 5)
			if rng.Chance(0.5) {
				o[i] = fs[0]
			} else {
				o[i] = fs[rng.Intn(len(fs))]
			}
		}
		sep := " "
		if rng.Chance(0.2) {
			sep = "\n  "
		}
		pt := 0
		if rng.Chance(0.25) {
			pt = 1
		}
		add("long-random", o, ops, sep, pt)
	}
	return cases
}

var c08FuncRe = regexp.MustCompile(`^func (c\d+)\(`)

// c08Transpile runs fc on a batch; on rejection it bisects so that each case is
// attributed individually. Results: name -> return expression ("" = rejected).
func c08Transpile(fc, pkgAll, dir string, batch []c08Case, got map[string]string, diag map[string]string, mu *sync.Mutex, depth int) {
	var src strings.Builder
	src.WriteString("package main\n\nimport frt\n\n")
	for _, c := range batch {
		fmt.Fprintf(&src, "let %s %s =\n%s\n\n", c.name, c08Params, c.body)
	}
	out := fcx.Transpile(fc, pkgAll, filepath.Join(dir, fmt.Sprintf("d%d", depth)), map[string]string{"x.fo": src.String()}, []string{"x.fo"}, nil, 60)
	if out.Res.Exit == 0 && out.Gen["gen_x.go"] != "" {
		lines := strings.Split(out.Gen["gen_x.go"], "\n")
		mu.Lock()
		for i, l := range lines {
			if m := c08FuncRe.FindStringSubmatch(l); m != nil && i+1 < len(lines) {
				ret := strings.TrimSpace(lines[i+1])
				ret = strings.TrimPrefix(ret, "return ")
				got[m[1]] = strings.Join(strings.Fields(ret), "")
			}
		}
		mu.Unlock()
		return
	}
	if len(batch) == 1 {
		mu.Lock()
		got[batch[0].name] = ""
		diag[batch[0].name] = fmt.Sprintf("exit=%d %s", out.Res.Exit, oneLineN(out.Diag(), 300))
		mu.Unlock()
		return
	}
	h := len(batch) / 2
	c08Transpile(fc, pkgAll, dir, batch[:h], got, diag, mu, depth*2+1)
	c08Transpile(fc, pkgAll, dir, batch[h:], got, diag, mu, depth*2+2)
}

func runC08(r *core.Run, tier string) {
	env, err := scratch.New("C08")
	if err != nil {
		r.Inconclusive("scratch: " + err.Error())
		return
	}
	defer env.Close()
	fc, err := env.FC()
	if err != nil {
		r.Inconclusive("fc does not build: " + err.Error())
		return
	}
	r.Rule("a case is one function whose body is a chain of binary operators; the emitted return expression (white space removed) is compared with the parenthesisation computed from the published table by a split-at-last-loosest-operator reference; all 22 620 sequences of 1..4 of the 12 non-pipe operators over atomic operands are enumerated, plus every operand form (literal, application, 2-argument application, `not f x`, parenthesised sub-chains, `not (..)`) at every position of all chains of <= 2 (thorough: 3) operators, pipe tails, a line break before every operator, every chain of <= 2 operators in five spacings (no blank, a blank only before / only after the operator, several blanks, tabs) over names, integer literals, an application followed by literals and parenthesised names, and a seeded sample of 5..7-operator chains; non-trivial = at least 2 operators; distinct by source text")
	r.Assume("fc does not type-check operator chains, so ill-typed chains are compared too when fc accepts them; a rejected ill-typed chain is counted, not judged; a rejected well-typed chain is a violation")
	cases := c08Generate(tier, core.NewRand(r.SeedV, "c08"))
	const per = 200
	nb := (len(cases) + per - 1) / per
	got := map[string]string{}
	diag := map[string]string{}
	var mu sync.Mutex
	scratch.Parallel(nb, 16, func(i int) {
		lo, hi := i*per, (i+1)*per
		if hi > len(cases) {
			hi = len(cases)
		}
		c08Transpile(fc, env.PkgAll(), env.Dir(fmt.Sprintf("c08/b%d", i)), cases[lo:hi], got, diag, &mu, 0)
	})
	kinds := map[string]int64{}
	rejectedIll := 0
	wellTyped := 0
	for _, c := range cases {
		r.Eval(c.desc, c.nontriv)
		kinds[c.kind]++
		if c.wellTy {
			wellTyped++
		}
		g, ok := got[c.name]
		switch {
		case !ok:
			r.Inconclusive("no result recorded for case " + c.desc)
		case g == "":
			if c.wellTy {
				r.Violate("rejected:"+c.desc, "well-typed operator chain rejected by fc: "+c.desc+" :: "+diag[c.name], map[string]string{"case.fo": c08Source(c), "diag.txt": diag[c.name]})
			} else {
				rejectedIll++
			}
		case g != c.want:
			r.Violate("grouping:"+c.desc, fmt.Sprintf("chain `%s` emitted as %s, the table gives %s", c.desc, g, c.want),
				map[string]string{"case.fo": c08Source(c), "got.txt": g + "\n", "want.txt": c.want + "\n"})
		}
	}
	r.Set("cases_by_kind", kinds)
	r.Set("well_typed_cases", wellTyped)
	r.Set("rejected_ill_typed_not_judged", rejectedIll)
	r.Set("fc_invocations", nb)
	for _, i := range []int{0, 157, 1900, len(cases) - 1} {
		if i < len(cases) {
			r.Sample(map[string]any{"source": cases[i].desc, "expected_return": cases[i].want, "emitted_return": got[cases[i].name]})
		}
	}
	r.Exhaustive(false)
	r.Set("exhaustive_part", map[string]string{"quick": "all 22620 chains of 1..4 non-pipe operators over atomic operands", "thorough": "all 271452 chains of 1..5 non-pipe operators over atomic operands"}[tier])
}

func c08Source(c c08Case) string {
	return fmt.Sprintf("package main\n\nimport frt\n\nlet %s %s =\n%s\n", c.name, c08Params, c.body)
}
