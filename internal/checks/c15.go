package checks

import (
	"fmt"
	"go/ast"
	"go/parser"
	"go/printer"
	"go/token"
	"path/filepath"
	"regexp"
	"strings"
	"sync"

	"verif/internal/core"
	"verif/internal/fcx"
	"verif/internal/scratch"
)

func init() { register("C15", "exploration", runC15) }

// tx is a Folang type expression.
type tx struct {
	k    string // leaf | unit | slice | tuple | func | gen
	fo   string // leaf / generic name in Folang
	gox  string // leaf / generic name in Go
	args []*tx  // slice: elem; tuple: elems; func: params..., result; gen: type arguments
}

func leaf(fo, gox string) *tx { return &tx{k: "leaf", fo: fo, gox: gox} }

var txUnit = &tx{k: "unit"}

// folang renders t. level 0: arrows allowed bare; 1: operand of an arrow (tuples bare);
// 2: tuple element / slice element (atoms and slices bare). extra() adds redundant parentheses.
func (t *tx) folang(level int, extra func() bool) string {
	var s string
	need := false
	switch t.k {
	case "leaf":
		s = t.fo
	case "unit":
		return "()"
	case "slice":
		s = "[]" + t.args[0].folang(2, extra)
	case "tuple":
		var ps []string
		for _, a := range t.args {
			ps = append(ps, a.folang(2, extra))
		}
		s = strings.Join(ps, "*")
		need = level >= 2
	case "func":
		var ps []string
		for _, a := range t.args {
			ps = append(ps, a.folang(1, extra))
		}
		s = strings.Join(ps, "->")
		need = level >= 1
	case "gen":
		var ps []string
		for _, a := range t.args {
			ps = append(ps, a.folang(0, extra))
		}
		s = t.fo + "<" + strings.Join(ps, ", ") + ">"
	}
	if need || extra() {
		s = "(" + s + ")"
		if extra() {
			s = "(" + s + ")"
		}
	}
	return s
}

// golang is the reference translation (documented grammar).
func (t *tx) golang() string {
	switch t.k {
	case "leaf":
		return t.gox
	case "unit":
		return ""
	case "slice":
		return "[]" + t.args[0].golang()
	case "tuple":
		var ps []string
		for _, a := range t.args {
			ps = append(ps, a.golang())
		}
		return fmt.Sprintf("frt.Tuple%d[%s]", len(t.args), strings.Join(ps, ", "))
	case "func":
		var ps []string
		for _, a := range t.args[:len(t.args)-1] {
			if a.k != "unit" {
				ps = append(ps, a.golang())
			}
		}
		res := t.args[len(t.args)-1]
		s := "func(" + strings.Join(ps, ", ") + ")"
		if res.k != "unit" {
			s += " " + res.golang()
		}
		return s
	case "gen":
		var ps []string
		for _, a := range t.args {
			ps = append(ps, a.golang())
		}
		return t.gox + "[" + strings.Join(ps, ", ") + "]"
	}
	return "?"
}

func (t *tx) depth() int {
	d := 0
	for _, a := range t.args {
		if x := a.depth(); x > d {
			d = x
		}
	}
	if t.k == "leaf" || t.k == "unit" {
		return 0
	}
	return d + 1
}

func normGo(s string) string {
	if s == "" {
		return ""
	}
	e, err := parser.ParseExpr(s)
	if err != nil {
		return "PARSE-ERROR(" + s + ")"
	}
	return printNode(e)
}

func printNode(n ast.Node) string {
	var b strings.Builder
	printer.Fprint(&b, token.NewFileSet(), n)
	return strings.Join(strings.Fields(b.String()), " ")
}

func c15Enumerate(tier string, rng *core.Rand) []*tx {
	leaves := []*tx{leaf("int", "int"), leaf("string", "string"), leaf("bool", "bool"), leaf("any", "any"), leaf("float", "float64"),
		leaf("R", "R"), leaf("U", "U"), leaf("ext.Ty", "ext.Ty"), leaf("Loc", "Loc")}
	red := []*tx{leaves[0], leaves[1], leaves[5]}
	two := []*tx{leaves[0], leaves[5]}
	build := func(args1 []*tx, argsN []*tx, sampleTuple3, sampleFunc2 int) []*tx {
		var out []*tx
		for _, a := range args1 {
			out = append(out, &tx{k: "slice", args: []*tx{a}})
			out = append(out, &tx{k: "gen", fo: "ext.Box", gox: "ext.Box", args: []*tx{a}})
			out = append(out, &tx{k: "gen", fo: "G", gox: "G", args: []*tx{a}})
			out = append(out, &tx{k: "func", args: []*tx{txUnit, a}})
			out = append(out, &tx{k: "func", args: []*tx{a, txUnit}})
			for _, k := range []*tx{leaves[0], leaves[1]} {
				out = append(out, &tx{k: "gen", fo: "dict.Dict", gox: "dict.Dict", args: []*tx{k, a}})
			}
			for _, b := range args1 {
				out = append(out, &tx{k: "tuple", args: []*tx{a, b}})
				out = append(out, &tx{k: "func", args: []*tx{a, b}})
			}
		}
		out = append(out, &tx{k: "func", args: []*tx{txUnit, txUnit}})
		var t3, f2 []*tx
		for _, a := range argsN {
			for _, b := range argsN {
				for _, c := range argsN {
					t3 = append(t3, &tx{k: "tuple", args: []*tx{a, b, c}})
					f2 = append(f2, &tx{k: "func", args: []*tx{a, b, c}})
				}
				f2 = append(f2, &tx{k: "func", args: []*tx{a, b, txUnit}})
			}
		}
		if sampleTuple3 > 0 && len(t3) > sampleTuple3 {
			core.Shuffle(rng, t3)
			t3 = t3[:sampleTuple3]
		}
		if sampleFunc2 > 0 && len(f2) > sampleFunc2 {
			core.Shuffle(rng, f2)
			f2 = f2[:sampleFunc2]
		}
		return append(append(out, t3...), f2...)
	}
	var all []*tx
	all = append(all, leaves...)
	d1 := build(leaves, red, 0, 0)
	all = append(all, d1...)
	// depth 2: arguments from the reduced leaves and the depth-1 types over {int, R}
	d1r := build(two, two, 2, 2)
	a2 := append(append([]*tx{}, red...), d1r...)
	s3, sf := 250, 350
	if tier == "thorough" {
		s3, sf = 4000, 6000
	}
	d2 := build(a2, a2, s3, sf)
	for _, t := range d2 {
		if t.depth() == 2 {
			all = append(all, t)
		}
	}
	// instantiations whose underscore-joined spellings coincide (P2<Qa_Qb, Qc> and P2<Qa, Qb_Qc> both
	// read "P2_Qa_Qb_Qc"): side by side in one type expression each keeps its own arguments
	{
		qab, qc, qa, qbc := leaf("Qa_Qb", "Qa_Qb"), leaf("Qc", "Qc"), leaf("Qa", "Qa"), leaf("Qb_Qc", "Qb_Qc")
		for _, gname := range []string{"P2", "Pu2"} {
			x := &tx{k: "gen", fo: gname, gox: gname, args: []*tx{qab, qc}}
			y := &tx{k: "gen", fo: gname, gox: gname, args: []*tx{qa, qbc}}
			all = append(all, x, y,
				&tx{k: "tuple", args: []*tx{x, y}}, &tx{k: "tuple", args: []*tx{y, x}}, &tx{k: "tuple", args: []*tx{x, y, x}},
				&tx{k: "func", args: []*tx{x, y}}, &tx{k: "func", args: []*tx{y, x, y}},
				&tx{k: "slice", args: []*tx{&tx{k: "tuple", args: []*tx{x, y}}}},
				&tx{k: "gen", fo: "dict.Dict", gox: "dict.Dict", args: []*tx{leaves[1], &tx{k: "tuple", args: []*tx{y, x}}}},
				&tx{k: "gen", fo: "G", gox: "G", args: []*tx{&tx{k: "func", args: []*tx{x, y}}}},
				&tx{k: "gen", fo: gname, gox: gname, args: []*tx{x, y}})
		}
	}
	// depth 3 (and 4 in thorough): seeded sample built from depth-2 arguments over {int, string, R}
	n3 := 400
	if tier == "thorough" {
		n3 = 20000
	}
	pool := append(append([]*tx{}, a2...), d2[:len(d2)/4]...)
	for i := 0; i < n3; i++ {
		pickA := func() *tx { return pool[rng.Intn(len(pool))] }
		var t *tx
		switch rng.Intn(7) {
		case 0:
			t = &tx{k: "slice", args: []*tx{pickA()}}
		case 1:
			t = &tx{k: "tuple", args: []*tx{pickA(), pickA()}}
		case 2:
			t = &tx{k: "tuple", args: []*tx{pickA(), pickA(), pickA()}}
		case 3:
			t = &tx{k: "func", args: []*tx{pickA(), pickA()}}
		case 4:
			t = &tx{k: "func", args: []*tx{pickA(), pickA(), pickA()}}
		case 5:
			t = &tx{k: "gen", fo: "dict.Dict", gox: "dict.Dict", args: []*tx{leaves[rng.Intn(2)], pickA()}}
		default:
			t = &tx{k: "gen", fo: core.Pick(rng, []string{"G", "ext.Box"}), args: []*tx{pickA()}}
			t.gox = t.fo
		}
		all = append(all, t)
	}
	return all
}

type c15Case struct {
	id     int
	t      *tx
	redund bool
	text   string // Folang text at level 0
	text1  string // Folang text as an arrow operand
	want   string // normalised Go type
	got    map[string]string
	status string
}

var c15WordR = regexp.MustCompile(`\bR\b`)
var c15WordInt = regexp.MustCompile(`\bint\b`)

const c15Header = `package main

import slice
import dict
import "ext"

package_info ext =
  type Ty
  type Box<T>

package_info _ =
  type Loc

type R = {A: int}

type U =
| UA of int
| UB

type G<T> = {Item: T}

type Gu<T> =
| GuS of T
| GuN

type Qa_Qb = {Fqab: int}

type Qc = {Fqc: int}

type Qa = {Fqa: int}

type Qb_Qc = {Fqbc: int}

type P2<T, U> = {P2a: T; P2b: U}

type Pu2<T, U> =
| Pu2a of T
| Pu2b of U

`

func (c *c15Case) decls() string {
	var b strings.Builder
	k := c.id
	if c.t.k != "unit" {
		fmt.Fprintf(&b, "type Rk%d = {Fk%d: %s; Z%d: int}\n\n", k, k, c.text, k)
		fmt.Fprintf(&b, "type Uk%d =\n| Ck%d of %s\n| Dk%d\n\n", k, k, c.text, k)
		fmt.Fprintf(&b, "let pk%d (x:%s) =\n  0\n\n", k, c.text)
		fmt.Fprintf(&b, "let wk%d () =\n  slice.New<%s> ()\n\n", k, c.text)
		// explicit type argument on an UNQUALIFIED name of the current package (a generic constructor)
		fmt.Fprintf(&b, "let uk%d () =\n  GuN<%s> ()\n\n", k, c.text)
	}
	if c.t.k != "unit" && c15WordR.MatchString(c.text) {
		// the same type with the user record replaced by a record defined LATER in the same
		// `type ... and ...` group (forward reference), as record field and union payload
		fwd := c15WordR.ReplaceAllString(c.text, fmt.Sprintf("LGk%d", k))
		fmt.Fprintf(&b, "type RGk%d = {Fkg%d: %s; ZGk%d: int}\nand UGk%d =\n| Ckg%d of %s\n| DGk%d\nand LGk%d = {XGk%d: int}\n\n", k, k, fwd, k, k, k, fwd, k, k, k)
	}
	if c.t.k != "unit" && c15WordR.MatchString(c.text) && k%3 == 0 {
		// the same type with the user record replaced by a user record whose name is ALSO the short
		// name of an external type declared by a later package_info block: the unqualified name
		// still denotes the user's record
		col := c15WordR.ReplaceAllString(c.text, fmt.Sprintf("Nk%d", k))
		fmt.Fprintf(&b, "type Nk%d = {Vk%d: int}\n\npackage_info pnk%d =\n  type Nk%d\n  let Hk%d: Nk%d->int\n\ntype RNk%d = {Fkn%d: %s; ZNk%d: int}\n\n", k, k, k, k, k, k, k, k, col, k)
	}
	if c.t.k != "unit" && c15WordInt.MatchString(c.text1) {
		// the same expression over a type parameter (every `int` written T) in the signature of a
		// generic foreign function, instantiated explicitly at int: substitution must reach every
		// occurrence (also the second occurrence of one generic user type)
		fmt.Fprintf(&b, "package_info psx%d =\n  let Sk%d<T>: T->%s\n\nlet sk%d () =\n  psx%d.Sk%d<int> 3\n\n", k, k, c15WordInt.ReplaceAllString(c.text1, "T"), k, k, k)
	}
	fmt.Fprintf(&b, "package_info pkx%d =\n  let Gk%d: ()->%s\n\n", k, k, c.text1)
	fmt.Fprintf(&b, "let qk%d () =\n  pkx%d.Gk%d ()\n\n", k, k, k)
	return b.String()
}

// c15Extract reads the Go type text at the five positions out of the emitted file.
func c15Extract(src string) (map[string]string, error) {
	fset := token.NewFileSet()
	f, err := parser.ParseFile(fset, "gen.go", src, parser.SkipObjectResolution)
	if err != nil {
		return nil, err
	}
	out := map[string]string{}
	for _, d := range f.Decls {
		switch d := d.(type) {
		case *ast.GenDecl:
			for _, s := range d.Specs {
				ts, ok := s.(*ast.TypeSpec)
				if !ok {
					continue
				}
				st, ok := ts.Type.(*ast.StructType)
				if !ok {
					continue
				}
				for _, fl := range st.Fields.List {
					for _, n := range fl.Names {
						if strings.HasPrefix(n.Name, "Fk") {
							out["field:"+strings.TrimPrefix(n.Name, "Fk")] = printNode(fl.Type)
						}
						if n.Name == "Value" && strings.Contains(ts.Name.Name, "_Ck") {
							out["payload:"+ts.Name.Name[strings.Index(ts.Name.Name, "_Ck")+3:]] = printNode(fl.Type)
						}
					}
				}
			}
		case *ast.FuncDecl:
			name := d.Name.Name
			switch {
			case strings.HasPrefix(name, "pk") && d.Type.Params != nil && len(d.Type.Params.List) == 1:
				out["param:"+name[2:]] = printNode(d.Type.Params.List[0].Type)
			case strings.HasPrefix(name, "New_Uk") && strings.Contains(name, "_Ck") && d.Type.Params != nil && len(d.Type.Params.List) == 1:
				out["ctorparam:"+name[strings.Index(name, "_Ck")+3:]] = printNode(d.Type.Params.List[0].Type)
			case strings.HasPrefix(name, "qk"):
				if d.Type.Results == nil || len(d.Type.Results.List) == 0 {
					out["pkginfo:"+name[2:]] = ""
				} else {
					out["pkginfo:"+name[2:]] = printNode(d.Type.Results.List[0].Type)
				}
			case strings.HasPrefix(name, "sk"):
				if d.Type.Results == nil || len(d.Type.Results.List) == 0 {
					out["subst:"+name[2:]] = ""
				} else {
					out["subst:"+name[2:]] = printNode(d.Type.Results.List[0].Type)
				}
			case strings.HasPrefix(name, "uk"):
				ast.Inspect(d.Body, func(n ast.Node) bool {
					if ix, ok := n.(*ast.IndexExpr); ok {
						if id, ok := ix.X.(*ast.Ident); ok && id.Name == "New_Gu_GuN" {
							out["localtarg:"+name[2:]] = printNode(ix.Index)
						}
					}
					return true
				})
			case strings.HasPrefix(name, "wk"):
				if d.Type.Results != nil && len(d.Type.Results.List) == 1 {
					out["targ-result:"+name[2:]] = printNode(d.Type.Results.List[0].Type)
				}
				ast.Inspect(d.Body, func(n ast.Node) bool {
					if ix, ok := n.(*ast.IndexExpr); ok {
						if se, ok := ix.X.(*ast.SelectorExpr); ok && se.Sel.Name == "New" {
							out["targ:"+name[2:]] = printNode(ix.Index)
						}
					}
					return true
				})
			}
		}
	}
	return out, nil
}

func runC15(r *core.Run, tier string) {
	env, err := scratch.New("C15")
	if err != nil {
		r.Inconclusive("scratch: " + err.Error())
		return
	}
	defer env.Close()
	fc, err := env.FC()
	if err != nil {
		r.Inconclusive("fc does not build: " + err.Error())
		return
	}
	r.Rule("a case is one (type expression, parenthesisation, position) triple: type expressions over the leaves int, string, bool, any, float, a user record, a user union, an external type ext.Ty, a type of package _ and the constructors slice, 2-/3-tuple, 1-/2-argument function, unit argument, unit result, dict.Dict<K,V>, ext.Box<T>, user generic G<T> - all of depth <= 1 over all leaves, depth 2 over a reduced argument set (3-tuples / 2-argument functions sampled), a seeded sample of depth 3..4; each written with minimal and with redundant parentheses and placed as parameter annotation, record field, union payload (+ constructor parameter), package_info signature result and explicit type argument (+ the slice type it induces); the Go type text at that position, extracted with go/parser and printed in go/printer normal form, is compared with the reference translation of the documented grammar; non-trivial = depth >= 1; distinct by (Folang text, position)")
	r.Assume("the property's grammar is the reference ([] binds tighter than *; docs/specs/note.md says the opposite in one sentence)", "emitted Go is parsed, not type-checked (external packages do not exist)")
	rng := core.NewRand(r.SeedV, "c15")
	types := c15Enumerate(tier, rng)
	var cases []*c15Case
	for _, t := range types {
		for _, red := range []bool{false, true} {
			if red && t.depth() == 0 && t.k == "unit" {
				continue
			}
			var extra func() bool
			if red {
				rr := rng.Split(fmt.Sprint(len(cases)))
				extra = func() bool { return rr.Chance(0.3) }
			} else {
				extra = func() bool { return false }
			}
			c := &c15Case{id: len(cases), t: t, redund: red, text: t.folang(0, extra), text1: t.folang(1, extra), want: normGo(t.golang())}
			if red && c.text == t.folang(0, func() bool { return false }) {
				continue // no redundant parenthesis was drawn
			}
			cases = append(cases, c)
		}
	}
	// transpile in files of 60 types; bisect on rejection
	var mu sync.Mutex
	var run func(dir string, batch []*c15Case, depth int)
	run = func(dir string, batch []*c15Case, depth int) {
		var b strings.Builder
		b.WriteString(c15Header)
		for _, c := range batch {
			b.WriteString(c.decls())
		}
		out := fcx.Transpile(fc, env.PkgAll(), filepath.Join(dir, fmt.Sprintf("d%d", depth)), map[string]string{"x.fo": b.String()}, []string{"x.fo"}, nil, 60)
		if out.Res.Exit == 0 && out.Gen["gen_x.go"] != "" {
			got, err := c15Extract(out.Gen["gen_x.go"])
			mu.Lock()
			for _, c := range batch {
				if err != nil {
					c.status = "go-syntax: " + err.Error()
				} else {
					c.got = got
					c.status = "ok"
				}
			}
			mu.Unlock()
			if err != nil && len(batch) > 1 {
				h := len(batch) / 2
				run(dir, batch[:h], depth*2+1)
				run(dir, batch[h:], depth*2+2)
			}
			return
		}
		if len(batch) == 1 {
			mu.Lock()
			batch[0].status = fmt.Sprintf("rejected: exit=%d %s", out.Res.Exit, oneLineN(out.Diag(), 200))
			mu.Unlock()
			return
		}
		h := len(batch) / 2
		run(dir, batch[:h], depth*2+1)
		run(dir, batch[h:], depth*2+2)
	}
	const per = 60
	nb := (len(cases) + per - 1) / per
	scratch.Parallel(nb, 16, func(i int) {
		lo, hi := i*per, (i+1)*per
		if hi > len(cases) {
			hi = len(cases)
		}
		run(env.Dir(fmt.Sprintf("c15/b%d", i)), cases[lo:hi], 0)
	})
	placements := map[string]int64{}
	byDepth := map[string]int64{}
	for _, c := range cases {
		byDepth[fmt.Sprintf("depth%d", c.t.depth())]++
		files := map[string]string{"case.fo": c15Header + c.decls(), "expected.txt": c.want + "\n"}
		if !strings.HasPrefix(c.status, "ok") {
			r.Eval(c.text+"@all", c.t.depth() >= 1)
			if strings.HasPrefix(c.status, "rejected") {
				r.Violate("type-rejected:"+c.text, fmt.Sprintf("type expression `%s` is rejected by fc: %s", c.text, c.status), files)
			} else {
				r.Violate("type-go-syntax:"+c.text, fmt.Sprintf("type expression `%s`: emitted Go does not parse: %s", c.text, c.status), files)
			}
			continue
		}
		k := fmt.Sprint(c.id)
		check := func(pos, want string) {
			placements[pos]++
			r.Eval(c.text+"@"+pos, c.t.depth() >= 1)
			got, ok := c.got[pos+":"+k]
			if !ok {
				r.Violate("type-position-missing:"+pos+":"+c.text, fmt.Sprintf("type expression `%s` as %s: no such declaration in the emitted Go", c.text, pos), files)
				return
			}
			if got != want {
				r.Violate("type-mapping:"+pos+":"+c.text, fmt.Sprintf("type expression `%s` as %s is emitted as `%s`, the documented grammar gives `%s`", c.text, pos, got, want), files)
			}
		}
		if c.t.k != "unit" {
			check("param", c.want)
			check("field", c.want)
			check("payload", c.want)
			check("ctorparam", c.want)
			check("targ", c.want)
			check("localtarg", c.want)
			check("targ-result", normGo("[]"+c.t.golang()))
		}
		if c.t.k != "unit" && c15WordR.MatchString(c.text) {
			// forward-reference positions: keys field:g<k> / payload:g<k>
			fw := c15WordR.ReplaceAllString(c.want, fmt.Sprintf("LGk%d", c.id))
			for _, pos := range []string{"field", "payload"} {
				placements["fwd-"+pos]++
				r.Eval(c.text+"@fwd-"+pos, true)
				got, ok := c.got[pos+":g"+k]
				if !ok {
					r.Violate("type-position-missing:fwd-"+pos+":"+c.text, fmt.Sprintf("type expression `%s` with a forward reference as %s: no such declaration in the emitted Go", c.text, pos), files)
				} else if got != fw {
					r.Violate("type-mapping:fwd-"+pos+":"+c.text, fmt.Sprintf("type expression `%s` (R defined later in the same type group) as %s is emitted as `%s`, the documented grammar gives `%s`", c.text, pos, got, fw), files)
				}
			}
		}
		if c.t.k != "unit" && c15WordR.MatchString(c.text) && c.id%3 == 0 {
			cw := c15WordR.ReplaceAllString(c.want, fmt.Sprintf("Nk%d", c.id))
			placements["external-name-collision"]++
			r.Eval(c.text+"@external-name-collision", true)
			got, ok := c.got["field:n"+k]
			if !ok {
				r.Violate("type-position-missing:collision:"+c.text, fmt.Sprintf("type expression `%s` over a user record that shares its name with a later external type: no such field in the emitted Go", c.text), files)
			} else if got != cw {
				r.Violate("type-mapping:collision:"+c.text, fmt.Sprintf("type expression `%s` (R a user record whose name is also the short name of an external type declared later) is emitted as `%s`, the documented grammar gives `%s`", c.text, got, cw), files)
			}
		}
		if c.t.k != "unit" && c15WordInt.MatchString(c.text1) {
			check("subst", c.want)
		}
		check("pkginfo", c.want)
	}
	r.Set("type_expressions", len(types))
	r.Set("written_forms", len(cases))
	r.Set("placements_by_position", placements)
	r.Set("forms_by_depth", byDepth)
	r.Set("fc_invocations_first_pass", nb)
	for _, i := range []int{20, 300, 2000, len(cases) - 1} {
		if i < len(cases) {
			r.Sample(map[string]any{"folang": cases[i].text, "go": cases[i].want, "redundant_parentheses": cases[i].redund})
		}
	}
	r.Set("exhaustive_part", "all type expressions of depth <= 1 over the 9 leaves")
}
