package checks

import (
	"encoding/json"
	"fmt"
	"os"
	"path/filepath"
	"sort"
	"strings"

	"verif/internal/core"
	"verif/internal/fcx"
	"verif/internal/fo"
	"verif/internal/goextract"
	"verif/internal/scratch"
)

func init() { register("C07", "exploration", runC07) }

// decoys: unrelated definitions inserted into a history. Every identifier carries the
// decoy's index, so nothing in the pool refers to them (and they refer to nothing in it).
func c07Decoys(k int) []*fo.RawDecl {
	n := func(s string) string { return strings.ReplaceAll(s, "#", fmt.Sprint(k)) }
	mk := func(names string, text string) *fo.RawDecl {
		return &fo.RawDecl{Names: strings.Fields(n(names)), Text: n(text)}
	}
	var named []*fo.RawDecl
	if k == 1 || k == 1000 {
		// (once per history) a user type that bears the name of the type parameter the generic
		// definitions of the pool use: inside `type GBox<T> = ...` T is still the parameter
		named = append(named, mk("T ZzTname#", "type T = {ZzTname#: string}"))
	}
	return append([]*fo.RawDecl{
		mk("ZzRec# ZzA# ZzB#", "type ZzRec# = {ZzA#: int; ZzB#: string}"),
		mk("ZzU# ZzP# ZzQ#", "type ZzU# =\n| ZzP# of int\n| ZzQ#"),
		mk("zzGen#", "let zzGen# a b =\n  (b, a)"),
		mk("zzFn#", "let zzFn# (r:ZzRec#) (xs:[]ZzRec#) =\n  let ys = xs |> slice.Map _.ZzA#\n  slice.Length ys + r.ZzA#"),
		mk("zzpkg# ZzT# ZzMake# ZzUse#", "package_info zzpkg# =\n  type ZzT#\n  let ZzMake#: int->ZzT#\n  let ZzUse#<T>: ZzT#->T->T"),
		mk("ZzTree# ZzKids# ZzOne# ZzNode# ZzLeaf# ZzBranch#", "type ZzTree# = {ZzKids#: []ZzNode#; ZzOne#: ZzNode#}\nand ZzNode# =\n| ZzLeaf# of int\n| ZzBranch# of ZzTree#"),
		mk("zzChain#", "let zzChain# a b c d =\n  let t = (a, b)\n  let u = (c, d)\n  (frt.Fst t, frt.Snd u)"),
		mk("zzVar#", "let zzVar# = 40 + 2"),
		mk("ZzBox# ZzItem# ZzCnt#", "type ZzBox#<T> = {ZzItem#: T; ZzCnt#: int}"),
		mk("zzMk#", "let zzMk# (i:int) =\n  let a = {ZzItem#=i; ZzCnt#=1}\n  let b = {ZzItem#=\"s\"; ZzCnt#=2}\n  a.ZzCnt# + b.ZzCnt#"),
		mk("zzMatch#", "let zzMatch# (u:ZzU#) =\n  match u with\n  | ZzP# i -> slice.Map (fun x -> x + i) [1; 2]\n  | ZzQ# -> [3]"),
	}, named...)
}

// c07Probes: definitions appended to every pool that go through fc's shared lookups. Two records
// with one field-name set (the alphabetically earlier one declared later), an *early* user of
// the field set that depends on the first record only (so a history may place it between the two
// records, where the literal legitimately denotes the only visible record: it is never compared)
// and a compared user that depends on both records. A lookup result remembered across
// definitions shows as a change of the compared user.
func c07Probes() []fo.Decl {
	mk := func(names string, text string) fo.Decl {
		return &fo.RawDecl{Names: strings.Fields(names), Text: text}
	}
	return []fo.Decl{
		mk("ZwPt ZwX ZwY", "type ZwPt = {ZwX: int; ZwY: int}"),
		mk("ZwCell", "type ZwCell = {ZwX: int; ZwY: int}"),
		mk("zwEarly", "let zwEarly () =\n  {ZwX=1; ZwY=2}"),
		mk("zwMk", "let zwMk (c:ZwCell) =\n  {ZwX=c.ZwX + 1; ZwY=4}"),
		mk("ZwGb ZwI ZwN", "type ZwGb<T> = {ZwI: T; ZwN: int}"),
		mk("ZwGa", "type ZwGa<T> = {ZwI: T; ZwN: int}"),
		mk("zwGEarly", "let zwGEarly () =\n  {ZwI=\"e\"; ZwN=2}"),
		mk("zwGMk", "let zwGMk (c:ZwGa<string>) =\n  {ZwI=c.ZwI; ZwN=c.ZwN + 1}"),
		// a plain record whose NAME looks like fc's encoding of an instantiation of the generic record
		// above (ZwGa<string>), with another field type; users of both, whose Go types are taken from
		// the record fields when the file is emitted
		mk("ZwGa_string", "type ZwGa_string = {ZwI: int}"),
		mk("zwGVals", "let zwGVals (bs:[]ZwGa<string>) =\n  bs |> slice.Map _.ZwI"),
		mk("zwLegacyVals", "let zwLegacyVals (ls:[]ZwGa_string) =\n  ls |> slice.Map _.ZwI"),
		// a global, a later global defined by a match whose arm binder carries the first one's name
		// (with another type), and a user of the first global: what the binder was must not outlive
		// its arm, wherever the match-defined global stands
		mk("zwGlob", "let zwGlob = \"s\""),
		mk("ZwU ZwA ZwB", "type ZwU =\n| ZwA of int\n| ZwB"),
		mk("zwUse", "let zwUse () =\n  zwGlob + \"!\""),
		mk("zwByMatch", "let zwByMatch =\n  match ZwA 3 with\n  | ZwA zwGlob -> zwGlob + 1\n  | _ -> 0"),
		mk("zwUse2", "let zwUse2 (a:string) =\n  [a; zwGlob]"),
		// two independent definitions that instantiate one generic library function with a PARTIAL
		// explicit type-argument list; the second also has parameters of its own left to inference
		mk("zwLabels", "let zwLabels (xs:[]int) =\n  slice.Map<int> (fun x -> \"s\") xs"),
		mk("zwTagged", "let zwTagged (xs:[]int) first second =\n  (slice.Map<int> (fun x -> \"t\") xs, first, second)"),
		mk("zwTagged2", "let zwTagged2 one (xs:[]string) two =\n  (one, two, slice.Map<string> (fun x -> 1) xs)"),
		// hand-written Go helpers over a type of this package: the declaration block needs the type
		// before it and is needed by its user; as a .foi argument it stands between two .fo files
		mk("ZwMid ZwMx ZwMs", "type ZwMid = {ZwMx: int; ZwMs: string}"),
		mk("zzmid ZzMidLen ZzMidMk", c07MidFoi),
		mk("zwMidUse", "let zwMidUse (m:ZwMid) =\n  let k = zzmid.ZzMidMk 2\n  zzmid.ZzMidLen m + k.ZwMx"),
	}
}

const c07MidFoi = "package_info zzmid =\n  let ZzMidLen: ZwMid->int\n  let ZzMidMk: int->ZwMid"

// c07Uncompared: declarations whose translation legitimately depends on their position (the
// early users of c07Probes).
func c07Uncompared(key string) bool {
	return strings.Contains(key, "zwEarly") || strings.Contains(key, "zwGEarly")
}

// decoy dependencies inside one decoy set (index into c07Decoys result)
var c07DecoyDeps = map[int][]int{3: {0}, 9: {8}, 10: {1}}

type c07History struct {
	kind  string
	files [][]fo.Decl // one declaration list per file, in invocation order
	names []string
	foi   map[int]bool // files passed as a .foi argument (declaration blocks only)
}

func (h *c07History) render(pkg string) (map[string]string, []string) {
	files := map[string]string{}
	var order []string
	for i, ds := range h.files {
		if h.foi[i] {
			name := fmt.Sprintf("mid%d.foi", i)
			var b strings.Builder
			for _, d := range ds {
				b.WriteString(d.(*fo.RawDecl).Text + "\n\n")
			}
			files[name] = b.String()
			order = append(order, name)
			continue
		}
		p := &fo.Program{Pkg: pkg, Imports: []string{"frt", "slice", "strings"}, Decls: ds}
		// stems ending in the letters of the extension, containing a dot: each X.fo must yield gen_X.go
		name := []string{"f0.fo", "hello.fo", "a.b.fo", "off.fo", "go.fo", "k6.fo", "foi.fo"}[i%7]
		if len(h.files) == 1 {
			name = "x.fo"
		}
		files[name] = fo.Print(p, nil)
		order = append(order, name)
	}
	return files, order
}

// c07FoiSplit turns the probe declaration block (c07MidFoi) into a .foi argument of its own at the
// place where it stands: the file holding it is cut in front of and behind it.
func c07FoiSplit(h *c07History) bool {
	for fi, ds := range h.files {
		for di, d := range ds {
			rd, ok := d.(*fo.RawDecl)
			if !ok || rd.Text != c07MidFoi {
				continue
			}
			var files [][]fo.Decl
			foi := map[int]bool{}
			files = append(files, h.files[:fi]...)
			if di > 0 {
				files = append(files, append([]fo.Decl{}, ds[:di]...))
			}
			foi[len(files)] = true
			files = append(files, []fo.Decl{d})
			if di+1 < len(ds) {
				files = append(files, append([]fo.Decl{}, ds[di+1:]...))
			}
			files = append(files, h.files[fi+1:]...)
			if len(files) < 2 {
				return false
			}
			h.files, h.foi = files, foi
			return true
		}
	}
	return false
}

func c07Histories(rng *core.Rand, p *fo.Program, n int, decoyBase int) []*c07History {
	deps := fo.Deps(p)
	base := &c07History{kind: "base", files: [][]fo.Decl{append([]fo.Decl{}, p.Decls...)}}
	out := []*c07History{base}
	topo := func(keep map[int]bool) []int {
		placed := map[int]bool{}
		var order []int
		for len(order) < len(keep) {
			var ready []int
			for i := range p.Decls {
				if !keep[i] || placed[i] {
					continue
				}
				ok := true
				for _, d := range deps[i] {
					if keep[d] && !placed[d] {
						ok = false
					}
				}
				if ok {
					ready = append(ready, i)
				}
			}
			pick := ready[rng.Intn(len(ready))]
			placed[pick] = true
			order = append(order, pick)
		}
		return order
	}
	all := map[int]bool{}
	for i := range p.Decls {
		all[i] = true
	}
	for k := 0; k < n; k++ {
		h := &c07History{}
		keep := all
		var kinds []string
		// deletion of definitions nothing kept refers to
		if rng.Chance(0.5) {
			keep = map[int]bool{}
			var closure func(i int)
			closure = func(i int) {
				if keep[i] {
					return
				}
				keep[i] = true
				for _, d := range deps[i] {
					closure(d)
				}
			}
			nt := 1 + rng.Intn(4)
			for t := 0; t < nt; t++ {
				closure(rng.Intn(len(p.Decls)))
			}
			kinds = append(kinds, "drop-unreferenced")
		}
		var order []int
		if rng.Chance(0.7) {
			order = topo(keep)
			kinds = append(kinds, "permute")
		} else {
			for i := range p.Decls {
				if keep[i] {
					order = append(order, i)
				}
			}
		}
		var seq []fo.Decl
		for _, i := range order {
			seq = append(seq, p.Decls[i])
		}
		// insertion of decoys
		if rng.Chance(0.6) {
			nd := 1 + rng.Intn(3)
			for q := 0; q < nd; q++ {
				ds := c07Decoys(decoyBase + q)
				placedAt := map[int]int{}
				idxs := rng.Intn(len(ds))
				chosen := []int{idxs}
				if need, ok := c07DecoyDeps[idxs]; ok {
					chosen = append(append([]int{}, need...), idxs)
				}
				pos := 0
				for _, ci := range chosen {
					lo := pos
					at := lo + rng.Intn(len(seq)-lo+1)
					seq = append(seq[:at:at], append([]fo.Decl{ds[ci]}, seq[at:]...)...)
					placedAt[ci] = at
					pos = at + 1
				}
			}
			kinds = append(kinds, "decoys")
		}
		// cut into files
		if rng.Chance(0.5) && len(seq) >= 4 {
			nf := 2 + rng.Intn(3)
			cuts := map[int]bool{}
			for len(cuts) < nf-1 {
				cuts[1+rng.Intn(len(seq)-1)] = true
			}
			var cur []fo.Decl
			for i, d := range seq {
				if cuts[i] && len(cur) > 0 {
					h.files = append(h.files, cur)
					cur = nil
				}
				cur = append(cur, d)
			}
			h.files = append(h.files, cur)
			kinds = append(kinds, fmt.Sprintf("cut-%d-files", len(h.files)))
		} else {
			h.files = [][]fo.Decl{seq}
		}
		if rng.Chance(0.4) && c07FoiSplit(h) {
			kinds = append(kinds, "foi-between-files")
		}
		if len(kinds) == 0 {
			kinds = []string{"identity"}
		}
		h.kind = strings.Join(kinds, "+")
		out = append(out, h)
	}
	// the base order with the declaration block of the hand-written helpers as a .foi argument
	// between the file that defines their type and the file that uses them
	if h := (&c07History{files: [][]fo.Decl{append([]fo.Decl{}, p.Decls...)}}); c07FoiSplit(h) {
		h.kind = "foi-between-files"
		out = append(out, h)
	}
	// one bulk history: 70 complete decoy sets (140 forward references in type groups, 70 generic
	// functions, 70 package_info blocks, ...) in front of the pool, in one file and cut in two:
	// whatever fc allots per definition must not be used up by earlier, unrelated definitions
	for _, cut := range []bool{false, true} {
		var bulk []fo.Decl
		for q := 0; q < 70; q++ {
			for _, d := range c07Decoys(1000 + q) {
				bulk = append(bulk, d)
			}
		}
		h := &c07History{kind: "bulk-decoys"}
		if cut {
			h.kind = "bulk-decoys+cut-2-files"
			h.files = [][]fo.Decl{bulk, append([]fo.Decl{}, p.Decls...)}
		} else {
			h.files = [][]fo.Decl{append(bulk, p.Decls...)}
		}
		out = append(out, h)
	}
	return out
}

type c07Trace struct {
	File int  `json:"file"`
	Idx  int  `json:"idx"`
	End  bool `json:"end"`
	Tv   int  `json:"tv"`
	Uid  int  `json:"uid"`
}

type c07Obs struct {
	exit  int
	diag  string
	decls map[string]string // Go declaration key -> renumbered text
	files []string          // files present afterwards
	tvOf  map[string]int    // Folang definition (first defined name) -> type variables allocated by its statement
	wall  bool
}

func c07Run(fc string, env *scratch.Env, dir string, h *c07History, pkg string) *c07Obs {
	files, order := h.render(pkg)
	// a .foi argument contributes declarations and yields no file
	files["ext.foi"] = "package_info zzext =\n  let ZzExt: int->int\n"
	args := append([]string{"ext.foi"}, order...)
	tr := filepath.Join(dir, "trace.log")
	os.MkdirAll(dir, 0o755)
	out := fcx.Transpile(fc, env.PkgAll(), dir, files, args, []string{"VERIF_FC_TRACE=" + tr, "VERIF_FC_ASSERT=1"}, 60)
	o := &c07Obs{exit: out.Res.Exit, diag: out.Diag(), decls: map[string]string{}, tvOf: map[string]int{}, wall: out.Res.WallOut}
	for _, f := range out.Files {
		if f != "trace.log" {
			o.files = append(o.files, f)
		}
	}
	sort.Strings(o.files)
	for name, g := range out.Gen {
		ds, err := goextract.Decls(g)
		if err != nil {
			o.diag += fmt.Sprintf("\n[go/parser on %s] %v", name, err)
			o.exit = -2
			continue
		}
		for _, d := range ds {
			o.decls[d.Key] = d.Text
		}
	}
	// H2 trace: file numbering starts with pkg_all.foi (1) and ext.foi (2)
	if b, err := os.ReadFile(tr); err == nil {
		byFile := map[int][]c07Trace{}
		for _, line := range strings.Split(string(b), "\n") {
			var t c07Trace
			if json.Unmarshal([]byte(line), &t) == nil && t.File > 0 {
				byFile[t.File] = append(byFile[t.File], t)
			}
		}
		for fi, ds := range h.files {
			recs := byFile[fi+3]
			// root statements: package, 3 imports, then the declarations
			for di, d := range ds {
				after := 4 + di + 1
				for _, t := range recs {
					if t.Idx == after || (t.End && t.Idx == after) {
						// the type-variable counter is reset at every root `let` only, so the value
						// after a type definition or package_info block says nothing about it
						isLet := false
						switch x := d.(type) {
						case *fo.FuncDef, *fo.VarDef:
							isLet = true
						case *fo.RawDecl:
							isLet = strings.HasPrefix(x.Text, "let ")
						}
						if names := fo.Defines(d); len(names) > 0 && isLet {
							o.tvOf[names[0]] = t.Tv
						}
					}
				}
			}
		}
	}
	return o
}

func runC07(r *core.Run, tier string) {
	env, err := scratch.New("C07")
	if err != nil {
		r.Inconclusive("scratch: " + err.Error())
		return
	}
	defer env.Close()
	fc, err := env.FC()
	if err != nil {
		r.Inconclusive("fc does not build: " + err.Error())
		return
	}
	nPools, nHist := 40, 10
	if tier == "thorough" {
		nPools, nHist = 400, 30
	}
	r.Rule("a case is one history of a pool of 20..40 top-level definitions (a generated program): a random dependency-respecting permutation, deletion of definitions nothing kept refers to, insertion of unrelated decoy definitions (records, unions, generic records and their instantiations, generic functions, package_info blocks, type ... and ... groups, _.F lambdas, matches), and cutting the sequence into 1..4 files of one fc invocation (plus a leading .foi argument; the declaration block of two hand-written helpers over a type of the package is, in 40% of the histories and once per pool on the base order, passed as a .foi argument of its own BETWEEN the file defining the type and the file using the helpers); one bulk history per pool puts 70 complete decoy sets in front of it (in one file, and as a first file of two); every pool also holds probe definitions (two records, plain and generic, with one field-name set, an uncompared early user of the field set that may be placed between them, and a compared user after both); for every Go declaration present both in the history and in the pool's base order the text (with _vN renumbered by first occurrence, extracted with go/parser) must be identical; the set of files written must be exactly gen_X.go per X.fo and nothing for the .foi; the hook-H2 trace must show the same number of type variables allocated by the same definition in every history; non-trivial = history differs from the base order; distinct by rendered text hash")
	r.Assume("the reference relation is over-approximated textually: a definition depends on every earlier definition one of whose identifiers occurs in it", "decoys use identifiers no pool definition contains")
	// pools: the C01 profile with more top-level variables (their right-hand sides are parsed
	// in the single long-lived root scope, where a leak reaches every later definition)
	prof := fo.ProfileC01
	prof.TopVarsMin = 3
	pools, _, _ := genCases(r.SeedV, "c07", prof, nPools, 0)
	type job struct {
		pool int
		h    *c07History
	}
	var jobs []job
	for pi, c := range pools {
		c.prog.Decls = append(c.prog.Decls, c07Probes()...)
		hs := c07Histories(core.NewRand(r.SeedV, fmt.Sprintf("c07h/%d", pi)), c.prog, nHist, 1)
		for _, h := range hs {
			jobs = append(jobs, job{pi, h})
		}
	}
	obs := make([]*c07Obs, len(jobs))
	base := env.Dir("c07")
	scratch.Parallel(len(jobs), 16, func(i int) {
		d := filepath.Join(base, fmt.Sprintf("w%d", i%64), fmt.Sprintf("j%d", i))
		obs[i] = c07Run(fc, env, d, jobs[i].h, pools[jobs[i].pool].name)
		os.RemoveAll(d)
	})
	// the reference of a pool is its base order; when fc rejects the base order but accepts another
	// history of the same definitions, that history becomes the reference (and the rejection of the
	// base is itself a dependence on the order)
	baseObs := map[int]*c07Obs{}
	for i, j := range jobs {
		if j.h.kind == "base" {
			baseObs[j.pool] = obs[i]
		}
	}
	for i, j := range jobs {
		if b := baseObs[j.pool]; b != nil && b.exit != 0 && b.exit != 97 && obs[i].exit == 0 && !obs[i].wall {
			r.Count("pools_whose_base_order_is_rejected_but_another_history_accepted", 1)
			baseObs[j.pool] = obs[i]
		}
	}
	kinds := map[string]int64{}
	var declsCompared, tvCompared int64
	for i, j := range jobs {
		o := obs[i]
		b := baseObs[j.pool]
		files, order := j.h.render(pools[j.pool].name)
		key := core.Hash(fmt.Sprint(files), strings.Join(order, ","))
		r.Eval(key, j.h.kind != "base" && j.h.kind != "identity")
		for _, k := range strings.Split(j.h.kind, "+") {
			kinds[k]++
		}
		if o.wall {
			r.Inconclusive("watchdog")
			continue
		}
		bundle := map[string]string{"history_kind.txt": j.h.kind + "\nargs: pkg_all.foi ext.foi " + strings.Join(order, " ") + "\n", "diag.txt": o.diag}
		for n, c := range files {
			bundle["history/"+n] = c
		}
		bundle["base/x.fo"] = pools[j.pool].src
		if b == nil || b.exit != 0 {
			r.Count("base_history_rejected_not_judged", 1)
			continue
		}
		if o.exit == 97 {
			r.Violate("h2-invariant:"+key, "root-boundary invariant violated in history ["+j.h.kind+"]: "+oneLineN(o.diag, 200), bundle)
			continue
		}
		if o.exit != 0 {
			r.Violate("history-rejected:"+key, "history ["+j.h.kind+"] of an accepted definition pool is rejected: "+oneLineN(o.diag, 240), bundle)
			continue
		}
		// files written
		want := []string{"ext.foi"}
		for _, n := range order {
			want = append(want, n)
			if strings.HasSuffix(n, ".fo") {
				want = append(want, "gen_"+strings.TrimSuffix(n, ".fo")+".go")
			}
		}
		sort.Strings(want)
		if strings.Join(want, " ") != strings.Join(o.files, " ") {
			r.Violate("files-written:"+key, fmt.Sprintf("files after the run are %v, expected %v", o.files, want), bundle)
		}
		// per-declaration text
		var diffs []string
		for k, t := range o.decls {
			bt, ok := b.decls[k]
			if !ok || c07Uncompared(k) {
				continue // decoy declaration, or an early probe user
			}
			declsCompared++
			if bt != t && goextract.EraseRenumbered(bt) == goextract.EraseRenumbered(t) {
				// same text up to the numbers of the temporaries, but not a one-to-one renumbering:
				// a parse-time and an emission-time temporary received the same number in one of
				// the histories (harmless shadowing). The statement allows any numbering: counted only.
				r.Count("declarations_equal_only_up_to_a_non_injective_numbering", 1)
				continue
			}
			if bt != t {
				diffs = append(diffs, k)
				bundle["decl_"+k+"_base.go"] = bt
				bundle["decl_"+k+"_history.go"] = t
			}
		}
		if len(diffs) > 0 {
			sort.Strings(diffs)
			r.Violate("decl-text:"+key, fmt.Sprintf("history [%s] changes the Go emitted for %v", j.h.kind, diffs), bundle)
		}
		// H2: type variables allocated per definition
		var tvd []string
		for name, tv := range o.tvOf {
			if btv, ok := b.tvOf[name]; ok && !c07Uncompared(name) {
				tvCompared++
				if btv != tv {
					tvd = append(tvd, fmt.Sprintf("%s: %d vs %d", name, btv, tv))
				}
			}
		}
		if len(tvd) > 0 {
			sort.Strings(tvd)
			r.Violate("tv-leak:"+key, fmt.Sprintf("history [%s]: the number of type variables a definition allocates depends on what was processed before it: %v", j.h.kind, tvd), bundle)
		}
	}
	if tier == "thorough" {
		c07SelfHost(r, env, fc)
	}
	r.Set("pools", len(pools))
	r.Set("histories_per_pool", nHist)
	r.Set("history_kinds", kinds)
	r.Set("go_declarations_compared", declsCompared)
	r.Set("h2_type_variable_counts_compared", tvCompared)
	if declsCompared == 0 {
		r.Inconclusive("no declaration compared")
	}
	if tvCompared == 0 {
		r.Inconclusive("hook H2 trace observed nothing")
	}
	for _, i := range []int{1, 2} {
		if i < len(jobs) {
			_, order := jobs[i].h.render("p")
			var ds []string
			for _, f := range jobs[i].h.files {
				var ns []string
				for _, d := range f {
					if n := fo.Defines(d); len(n) > 0 {
						ns = append(ns, n[0])
					}
				}
				ds = append(ds, strings.Join(ns, " "))
			}
			r.Sample(map[string]any{"kind": jobs[i].h.kind, "files": order, "definition_order_per_file": ds})
		}
	}
}

// c07SelfHost: the self-hosted sources. For every file F of the 12-file build, drop every
// earlier file that F does not need (found greedily: fc still accepts), and compare F's
// declarations with those of the full build.
func c07SelfHost(r *core.Run, env *scratch.Env, fc string) {
	order := fcSourceOrder(env.Repo)
	src := map[string]string{}
	for _, f := range order {
		b, err := os.ReadFile(filepath.Join(env.Repo, "fc", f))
		if err != nil {
			r.Inconclusive("cannot read fc/" + f)
			return
		}
		src[f] = string(b)
	}
	full := fcx.Transpile(fc, env.PkgAll(), env.Dir("c07self/full"), src, order, nil, 120)
	if full.Res.Exit != 0 {
		r.Count("self_host_full_build_rejected", 1)
		return
	}
	var compared int64
	scratch.Parallel(len(order), 6, func(k int) {
		F := order[k]
		need := append([]string{}, order[:k]...)
		for i := len(need) - 1; i >= 0; i-- {
			try := append(append([]string{}, need[:i]...), need[i+1:]...)
			out := fcx.Transpile(fc, env.PkgAll(), env.Dir(fmt.Sprintf("c07self/%d-%d", k, i)), src, append(append([]string{}, try...), F), nil, 120)
			if out.Res.Exit == 0 {
				need = try
			}
		}
		out := fcx.Transpile(fc, env.PkgAll(), env.Dir(fmt.Sprintf("c07self/%d-final", k)), src, append(append([]string{}, need...), F), nil, 120)
		g := "gen_" + strings.TrimSuffix(F, ".fo") + ".go"
		a, err1 := goextract.Decls(full.Gen[g])
		b, err2 := goextract.Decls(out.Gen[g])
		if err1 != nil || err2 != nil || out.Res.Exit != 0 {
			r.Inconclusive("self-host comparison of " + F + " failed to run")
			return
		}
		bm := map[string]string{}
		for _, d := range b {
			bm[d.Key] = d.Text
		}
		for _, d := range a {
			r.Count("self_host_declarations_compared", 1)
			compared++
			if bm[d.Key] != d.Text {
				r.Violate("selfhost-decl:"+F+":"+d.Key, fmt.Sprintf("fc/%s: declaration %s differs between the full build and the build after only its prerequisites %v", F, d.Key, need),
					map[string]string{"full.go": d.Text, "minimal.go": bm[d.Key]})
			}
		}
		r.Eval("selfhost:"+F, len(need) < k)
	})
}
