package checks

import (
	"fmt"
	"strconv"

	"verif/internal/core"
	"verif/internal/fo"
)

func profileByName(n string) fo.Profile {
	switch n {
	case "tinyfo":
		return fo.ProfileTiny
	}
	return fo.ProfileC01
}

// DebugGen prints one generated program and the reference evaluator's prediction.
func DebugGen(args []string) {
	prof, seed := "c01", int64(1)
	if len(args) > 0 {
		prof = args[0]
	}
	if len(args) > 1 {
		seed, _ = strconv.ParseInt(args[1], 10, 64)
	}
	p, feats := fo.Generate(core.NewRand(seed, "gen"), profileByName(prof), "main")
	fmt.Print(fo.Print(p, nil))
	out, err := fo.Run(p, "Run")
	fmt.Println("// ---- predicted output ----")
	fmt.Print(out)
	if err != nil {
		fmt.Println("// eval error:", err)
	}
	fmt.Println("// features:", feats)
}
