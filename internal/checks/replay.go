package checks

import (
	"encoding/json"
	"fmt"
	"os"
	"path/filepath"
)

// Replay prints a stored witness bundle and re-runs the owning check's quick
// tier with the recorded seed (every check is deterministic in tree+seed+tier).
func Replay(path string) int {
	b, err := os.ReadFile(filepath.Join(path, "meta.json"))
	if err != nil {
		fmt.Fprintln(os.Stderr, "replay: no meta.json under", path)
		return 2
	}
	var meta struct {
		Property string `json:"property"`
		Sig      string `json:"sig"`
		What     string `json:"what"`
		Seed     int64  `json:"seed"`
		Tier     string `json:"tier"`
	}
	json.Unmarshal(b, &meta)
	fmt.Printf("witness %s of %s: %s\n", meta.Sig, meta.Property, meta.What)
	ents, _ := os.ReadDir(path)
	for _, e := range ents {
		fmt.Println("  file:", filepath.Join(path, e.Name()))
	}
	fmt.Printf("re-run: VERIF_SEED=%d ./check %s %s\n", meta.Seed, meta.Property, meta.Tier)
	return 0
}
