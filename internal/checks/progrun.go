package checks

import (
	"fmt"
	"os"
	"path/filepath"
	"strings"

	"verif/internal/core"
	"verif/internal/fcx"
	"verif/internal/fo"
	"verif/internal/gobatch"
	"verif/internal/scratch"
)

// progCase is one abstract program with its reference prediction.
type progCase struct {
	name    string // package name pN
	prog    *fo.Program
	src     string
	expect  string
	evalErr error
	feats   map[string]int
	key     string

	gen    string // emitted Go
	fcExit int
	fcDiag string
	got    string
	status string // "", "fc-rejected", "go-compile-error", "panic", "died", "mismatch", "ok"
	detail string
}

// transpileAll runs the compiler binary on every case (one process and one
// directory per program) and stores the emitted Go.
func transpileAll(bin string, pkgInfo string, env *scratch.Env, tag string, cases []*progCase) {
	base := env.Dir(tag)
	scratch.Parallel(len(cases), 16, func(i int) {
		c := cases[i]
		d := filepath.Join(base, fmt.Sprintf("w%d", i%64), c.name)
		out := fcx.Transpile(bin, pkgInfo, d, map[string]string{"x.fo": c.src}, []string{"x.fo"}, nil, 30)
		c.fcExit = out.Res.Exit
		c.fcDiag = out.Diag()
		c.gen = out.Gen["gen_x.go"]
		if out.Res.WallOut {
			c.status = "inconclusive"
		} else if out.Res.Exit != 0 || c.gen == "" {
			c.status = "fc-rejected"
			c.detail = fmt.Sprintf("exit=%d %s", out.Res.Exit, oneLineN(c.fcDiag, 300))
		}
		os.RemoveAll(d)
	})
}

// runAll compiles and runs the emitted programs in batches and fills got/status.
func runAll(env *scratch.Env, tag string, cases []*progCase, perBatch int) (inconcl []string) {
	var live []*progCase
	for _, c := range cases {
		if c.status == "" {
			live = append(live, c)
		}
	}
	nb := (len(live) + perBatch - 1) / perBatch
	res := make([]*gobatch.Result, nb)
	scratch.Parallel(nb, 6, func(b int) {
		lo, hi := b*perBatch, (b+1)*perBatch
		if hi > len(live) {
			hi = len(live)
		}
		var progs []gobatch.Prog
		for _, c := range live[lo:hi] {
			progs = append(progs, gobatch.Prog{Name: c.name, Files: map[string]string{"gen_x.go": c.gen}})
		}
		res[b] = gobatch.Run(env, fmt.Sprintf("%s-b%d", tag, b), progs, 300)
	})
	for b, br := range res {
		if br.Inconcl != "" {
			inconcl = append(inconcl, br.Inconcl)
		}
		lo, hi := b*perBatch, (b+1)*perBatch
		if hi > len(live) {
			hi = len(live)
		}
		for _, c := range live[lo:hi] {
			if e, ok := br.CompileErr[c.name]; ok {
				c.status, c.detail = "go-compile-error", e
			} else if p, ok := br.Panic[c.name]; ok {
				c.status, c.detail = "panic", p
				c.got = br.Output[c.name]
			} else if d, ok := br.Died[c.name]; ok {
				c.status, c.detail = "died", d
			} else if o, ok := br.Output[c.name]; ok {
				c.got = o
				if o == c.expect {
					c.status = "ok"
				} else {
					c.status = "mismatch"
					c.detail = classifyLogDiff(c.expect, o)
				}
			} else if br.Inconcl == "" {
				c.status, c.detail = "died", "no output recorded"
			} else {
				c.status = "inconclusive"
			}
		}
	}
	return inconcl
}

// classifyLogDiff names the first divergence between the predicted and the observed
// event logs by tag: missing / duplicated / reordered / foreign event, or a wrong value.
func classifyLogDiff(want, got string) string {
	wl, gl := strings.Split(want, "\n"), strings.Split(got, "\n")
	i := 0
	for i < len(wl) && i < len(gl) && wl[i] == gl[i] {
		i++
	}
	w, g := "<end>", "<end>"
	if i < len(wl) {
		w = wl[i]
	}
	if i < len(gl) {
		g = gl[i]
	}
	count := func(ls []string, x string) int {
		n := 0
		for _, l := range ls {
			if l == x {
				n++
			}
		}
		return n
	}
	kind := "wrong value"
	switch {
	case strings.HasPrefix(g, "E ") && count(wl, g) == 0:
		kind = "event of a site that must not be evaluated (untaken branch / unneeded operand)"
	case strings.HasPrefix(g, "E ") && count(gl, g) > count(wl, g):
		kind = "site evaluated more often than the semantics prescribe"
	case strings.HasPrefix(w, "E ") && count(gl, w) < count(wl, w):
		kind = "site not evaluated (or evaluated fewer times)"
	case strings.HasPrefix(w, "E ") && strings.HasPrefix(g, "E "):
		kind = "evaluation order differs"
	}
	return fmt.Sprintf("line %d: expected %q, got %q (%s)", i+1, w, g, kind)
}

// genCases generates n programs of a profile, dropping those whose reference
// evaluation fails (a generator/evaluator gap, counted and reported).
func genCases(seed int64, label string, prof fo.Profile, n int, start int) (cases []*progCase, discarded int, discardWhy map[string]int) {
	discardWhy = map[string]int{}
	for i := 0; len(cases) < n && i < n*3; i++ {
		name := fmt.Sprintf("p%d", start+i)
		r := core.NewRand(seed, fmt.Sprintf("%s/%d", label, i))
		var p *fo.Program
		var feats map[string]int
		func() {
			defer func() {
				if x := recover(); x != nil {
					discardWhy["generator panic: "+fmt.Sprint(x)]++
					p = nil
				}
			}()
			p, feats = fo.Generate(r, prof, name)
		}()
		if p == nil {
			discarded++
			continue
		}
		out, err := fo.Run(p, "Run")
		if err != nil {
			discarded++
			discardWhy[oneLineN(err.Error(), 80)]++
			continue
		}
		src := fo.Print(p, nil)
		cases = append(cases, &progCase{name: name, prog: p, src: src, expect: out, feats: feats, key: core.Hash(src)})
	}
	return
}
