package checks

import (
	"fmt"
	"os"
	"path/filepath"
	"sort"
	"strings"
	"verif/internal/hm"

	"verif/internal/core"
	"verif/internal/fcx"
	"verif/internal/fo"
	"verif/internal/scratch"
)

func init() { register("C05", "exploration", runC05) }

type c05Input struct {
	id    string
	kind  string
	files map[string]string
	args  []string // after pkg_all.foi
}

// c05Special builds programs that put >= 2 entries into every dictionary fc iterates.
func c05Special(rng *core.Rand, k int) []c05Input {
	var out []c05Input
	add := func(kind, src string) {
		out = append(out, c05Input{id: fmt.Sprintf("%s-%d", kind, k), kind: kind, files: map[string]string{"x.fo": src}, args: []string{"x.fo"}})
	}
	// several records with identical field-name sets, literals with and without the Rec. prefix
	{
		nr := 2 + rng.Intn(4)
		names := []string{"Alpha", "Beta", "Gamma", "Delta", "Eps"}
		core.Shuffle(rng, names)
		var b strings.Builder
		b.WriteString("package main\n\n")
		for i := 0; i < nr; i++ {
			if rng.Bool() {
				fmt.Fprintf(&b, "type %s = {X: int; Y: int}\n\n", names[i])
			} else {
				fmt.Fprintf(&b, "type %s = {Y: int; X: int}\n\n", names[i])
			}
		}
		fmt.Fprintf(&b, "type Other = {X: int; Z: string}\n\n")
		b.WriteString("let mkPlain () =\n  {X=1; Y=2}\n\n")
		b.WriteString("let mkSwapped () =\n  {Y=3; X=4}\n\n")
		fmt.Fprintf(&b, "let mkPrefixed () =\n  {%s.X=5; Y=6}\n\n", names[rng.Intn(nr)])
		b.WriteString("let mkOther () =\n  {X=7; Z=\"z\"}\n\n")
		b.WriteString("let sum () =\n  let r = mkPlain ()\n  r.X + r.Y\n")
		add("same-field-records", b.String())
	}
	// generic records sharing one field-name set (alone, or mixed with a non-generic one)
	{
		nr := 2 + rng.Intn(3)
		names := []string{"Pair", "Both", "Duo", "Twin", "Couple"}
		core.Shuffle(rng, names)
		var b strings.Builder
		b.WriteString("package main\n\n")
		for i := 0; i < nr; i++ {
			switch rng.Intn(3) {
			case 0:
				fmt.Fprintf(&b, "type %s<T> = {Fst: T; Snd: T}\n\n", names[i])
			case 1:
				fmt.Fprintf(&b, "type %s<T, U> = {Fst: T; Snd: U}\n\n", names[i])
			default:
				fmt.Fprintf(&b, "type %s<T> = {Snd: T; Fst: int}\n\n", names[i])
			}
		}
		if rng.Chance(0.3) {
			b.WriteString("type Plain = {Fst: int; Snd: int}\n\n")
		}
		b.WriteString("let mk (a:int) =\n  {Fst=a; Snd=a}\n\n")
		b.WriteString("let mkSwapped (a:int) =\n  {Snd=a; Fst=a}\n\n")
		b.WriteString("let use (a:int) =\n  let r = mk a\n  r.Fst + r.Snd\n")
		add("same-field-generic-records", b.String())
	}
	// unions: exhaustive, default, and non-exhaustive matches (reject path)
	{
		nc := 2 + rng.Intn(4)
		var b strings.Builder
		b.WriteString("package main\n\ntype U =\n")
		for i := 0; i < nc; i++ {
			if rng.Bool() {
				fmt.Fprintf(&b, "| C%d of int\n", i)
			} else {
				fmt.Fprintf(&b, "| C%d\n", i)
			}
		}
		b.WriteString("\nlet f (u:U) =\n  match u with\n")
		missing := 0
		if rng.Chance(0.6) {
			missing = 1 + rng.Intn(nc-1)
		}
		perm := make([]int, nc)
		for i := range perm {
			perm[i] = i
		}
		core.Shuffle(rng, perm)
		for _, i := range perm[:nc-missing] {
			fmt.Fprintf(&b, "  | C%d _ -> %d\n", i, i)
		}
		src := b.String()
		// `| C _ ->` on a bare case is rejected earlier; write bare arms for bare cases
		for i := 0; i < nc; i++ {
			if !strings.Contains(src, fmt.Sprintf("| C%d of int", i)) {
				src = strings.ReplaceAll(src, fmt.Sprintf("  | C%d _ ->", i), fmt.Sprintf("  | C%d ->", i))
			}
		}
		add(fmt.Sprintf("union-match-missing-%d", missing), src)
	}
	// package_info: many entries, two overlapping blocks for one package, a second package
	{
		var b strings.Builder
		b.WriteString("package main\n\nimport \"ext\"\n\npackage_info ext =\n")
		nt := 2 + rng.Intn(3)
		for i := 0; i < nt; i++ {
			fmt.Fprintf(&b, "  type T%d\n", i)
		}
		nf := 3 + rng.Intn(6)
		for i := 0; i < nf; i++ {
			fmt.Fprintf(&b, "  let F%d: int->T%d\n", i, i%nt)
		}
		b.WriteString("  let G<T>: T->[]T\n  let H<K, V>: K->V->K*V\n\n")
		b.WriteString("package_info ext =\n")
		// the second block repeats the types and some functions of the first one (small blocks next
		// to the code that uses them, as the tutorial suggests) among its new ones, in a random order
		for i := 0; i < nt; i++ {
			fmt.Fprintf(&b, "  type T%d\n", i)
		}
		var lines []string
		for i := 0; i < 1+rng.Intn(4); i++ {
			lines = append(lines, fmt.Sprintf("  let X%d: T%d->int\n", i, i%nt))
		}
		for i := 0; i < nf; i++ {
			if rng.Chance(0.4) {
				lines = append(lines, fmt.Sprintf("  let F%d: int->T%d\n", i, i%nt))
			}
		}
		lines = append(lines, "  let G<T>: T->[]T\n")
		core.Shuffle(rng, lines)
		b.WriteString(strings.Join(lines, ""))
		b.WriteString("  type Late\n  let MkLate: ()->Late\n\n")
		b.WriteString("package_info _ =\n  type Loc\n  let mkLoc: int->Loc\n  let useLoc<T>: Loc->T->T\n\n")
		b.WriteString("package_info _ =\n  type Loc\n  let useLoc<T>: Loc->T->T\n  let mkLoc: int->Loc\n  let lateLoc: Loc->int\n  let otherLoc: int->int\n\n")
		b.WriteString("let d () =\n  otherLoc (lateLoc (mkLoc 4))\n\n")
		// the external types named by their full names in annotations (each name must keep its own type)
		fmt.Fprintf(&b, "let ann (t:ext.T0) (u:ext.T1) (l:ext.Late) =\n  ext.X0 t\n\nlet ann2 (u:ext.T%d) (ts:[]ext.T1) =\n  u\n\n", nt-1)
		b.WriteString("let a () =\n  ext.X0 (ext.F0 1)\n\n")
		b.WriteString("let b () =\n  ext.H 1 (ext.G \"s\")\n\n")
		b.WriteString("let c () =\n  useLoc (mkLoc 3) (ext.MkLate ())\n")
		add("package-info", b.String())
	}
	// many inference variables: long chains of unannotated parameters (equivalence-set unions)
	{
		n := 4 + rng.Intn(6)
		var ps []string
		for i := 0; i < n; i++ {
			ps = append(ps, fmt.Sprintf("a%d", i))
		}
		var b strings.Builder
		b.WriteString("package main\n\nimport frt\nimport slice\n\n")
		fmt.Fprintf(&b, "let chain %s =\n", strings.Join(ps, " "))
		order := make([]int, n-1)
		for i := range order {
			order[i] = i
		}
		core.Shuffle(rng, order)
		for _, i := range order {
			fmt.Fprintf(&b, "  let e%d = a%d = a%d\n", i, i, i+1)
		}
		b.WriteString("  " + strings.Join(func() []string {
			var es []string
			for i := 0; i < n-1; i++ {
				es = append(es, fmt.Sprintf("e%d", i))
			}
			return es
		}(), " && ") + "\n\n")
		fmt.Fprintf(&b, "let pairs %s =\n", strings.Join(ps[:4], " "))
		b.WriteString("  let t = (a0, a1)\n  let u = (a2, a3)\n  let xs = [frt.Fst t; frt.Fst u]\n  (slice.Head xs, frt.Snd t, frt.Snd u)\n\n")
		fmt.Fprintf(&b, "let late %s =\n", strings.Join(ps[:3], " "))
		b.WriteString("  let f = fun x y -> (y, x)\n  let p = f a0 a1\n  let q = f a1 a2\n  (p, q, a0 + 1)\n")
		add("inference-variables", b.String())
	}
	// type variables that occur only in the BODY of a function (they are hoisted as type
	// parameters after the ones of the signature): several of them in one function
	{
		var b strings.Builder
		b.WriteString("package main\n\npackage_info _ =\n  let show<T>: T->()\n\n")
		shapes := []string{"fun %s -> %s", "fun %s -> [%s]", "fun %s -> (%s, 1)", "fun %s -> [[%s]]", "fun %s -> (\"s\", %s)", "fun %s -> ([%s], 2)"}
		for f := 0; f < 2; f++ {
			n := 2 + rng.Intn(8)
			sig := "()"
			if f == 1 {
				sig = "x y"
			}
			fmt.Fprintf(&b, "let probe%d %s =\n", f, sig)
			for i := 0; i < n; i++ {
				v := fmt.Sprintf("%c%d", 'a'+rng.Intn(20), i)
				fmt.Fprintf(&b, "  show ("+shapes[rng.Intn(len(shapes))]+")\n", v, v)
			}
			if f == 1 {
				b.WriteString("  (y, x)\n\n")
			} else {
				b.WriteString("  0\n\n")
			}
		}
		add("body-only-type-variables", b.String())
	}
	return out
}

func runC05(r *core.Run, tier string) {
	env, err := scratch.New("C05")
	if err != nil {
		r.Inconclusive("scratch: " + err.Error())
		return
	}
	defer env.Close()
	fc, err := env.FC()
	if err != nil {
		r.Inconclusive("fc does not build: " + err.Error())
		return
	}
	if !hookH1Present(env) {
		r.Inconclusive("hook H1 (pkg/dict enumeration order) is not present in this tree")
		return
	}
	nGen, nSpecial, nNative, nShuffle := 40, 5, 6, 4
	if tier == "thorough" {
		nGen, nSpecial, nNative, nShuffle = 500, 75, 25, 24
	}
	r.Rule("a case is one (input, execution) pair: each input (the 12 self-hosted sources in one invocation, every listed sample, generated programs, the same generated programs followed in the invocation by a second file that is rejected (unknown name, ill-typed, unbalanced, unknown type), and programs built to put >= 2 entries in every dictionary fc iterates: records with identical field-name sets with/without Rec. prefix, unions with exhaustive / default / non-exhaustive matches, package_info blocks with many and overlapping entries, long chains of inference variables, and constraint-shape functions over unannotated parameters, ill-typed ones included) is transpiled by fresh fc processes under Go's native map order (once in a directory where the output files already exist with other, longer content) and under the hook-H1 orders asc, desc, rot:1..3 and seeded shuffles; all executions of one input must agree on every output file's bytes and on accept/reject; the H1 log is the evidence that order-sensitive code was reached; non-trivial = execution under a controlled order; distinct by (input, order)")
	r.Assume("every order the hook produces is one Go's map iteration may produce", "diagnostic text is not part of the statement (which uncovered case is named may vary)")
	var inputs []c05Input
	// self-hosted sources
	{
		order := fcSourceOrder(env.Repo)
		files := map[string]string{}
		for _, f := range order {
			b, _ := os.ReadFile(filepath.Join(env.Repo, "fc", f))
			files[f] = string(b)
		}
		inputs = append(inputs, c05Input{id: "self-hosted", kind: "self-hosted", files: files, args: order})
	}
	for _, s := range sampleList(env.Repo) {
		b, _ := os.ReadFile(filepath.Join(env.Repo, "samples", s))
		inputs = append(inputs, c05Input{id: "sample/" + s, kind: "sample", files: map[string]string{s: string(b)}, args: []string{s}})
	}
	gen, _, _ := genCases(r.SeedV, "c05", fo.ProfileC01, nGen, 0)
	for _, c := range gen {
		inputs = append(inputs, c05Input{id: "generated/" + c.key, kind: "generated", files: map[string]string{"x.fo": c.src}, args: []string{"x.fo"}})
	}
	// one invocation over two files of which the first is accepted and the second rejected: what is
	// left of the first file's output (and the exit status) must be the same in every process
	for i, c := range gen {
		if i >= 40 {
			break
		}
		bad := []string{
			"package main\n\nlet zzBad () =\n  zzUnknown + 1\n",
			"package main\n\nlet zzBad (a:int) =\n  a + \"s\"\n",
			"package main\n\nlet zzBad () =\n  (1\n",
			"package main\n\ntype ZzR = {ZzF: ZzMissing}\n",
		}[i%4]
		inputs = append(inputs, c05Input{id: "accepted-then-rejected/" + c.key, kind: "accepted-then-rejected", files: map[string]string{"a.fo": c.src, "b.fo": bad}, args: []string{"a.fo", "b.fo"}})
	}
	for k := 0; k < nSpecial; k++ {
		inputs = append(inputs, c05Special(core.NewRand(r.SeedV, fmt.Sprintf("c05s/%d", k)), k)...)
	}
	// constraint-shape functions (C02's generator) WITHOUT the well-typedness filter: unannotated
	// parameters tied to structured types and unified late; in the ill-typed ones a type variable
	// receives disagreeing constraints, and which one wins (or whether fc notices) must not depend
	// on an enumeration order
	nShapes := 60
	if tier == "thorough" {
		nShapes = 800
	}
	for i := 0; i < nShapes; i++ {
		var f *fo.FuncDef
		func() {
			defer func() { recover() }()
			f = c02ShapeOpt(core.NewRand(r.SeedV, fmt.Sprintf("c05shape/%d", i)), fmt.Sprintf("shape%d", i), i%4 != 0)
		}()
		if f == nil || len(f.Body.Stmts) == 0 {
			continue
		}
		kind := "constraint-shape-ill-typed"
		if _, err := hm.New(&fo.Program{}).InferFunc(f); err == nil {
			kind = "constraint-shape-well-typed"
		}
		vp := &fo.Program{Pkg: "main", Imports: []string{"frt", "slice"}, Decls: append(append([]fo.Decl{}, c02GenericPrelude...), f)}
		inputs = append(inputs, c05Input{id: fmt.Sprintf("%s/%d", kind, i), kind: kind, files: map[string]string{"x.fo": fo.Print(vp, nil)}, args: []string{"x.fo"}})
	}
	var orders []string
	for i := 0; i < nNative; i++ {
		orders = append(orders, "")
	}
	// one execution in a directory where every output file already exists with other, longer
	// content (the result must not depend on what an earlier run left behind)
	orders = append(orders, "native+stale-outputs")
	orders = append(orders, "asc", "desc", "rot:1", "rot:2", "rot:3")
	for i := 0; i < nShuffle; i++ {
		orders = append(orders, fmt.Sprintf("shuffle:%d", r.SeedV*100+int64(i)))
	}
	type obs struct {
		exit  int
		sig   string
		gens  map[string]string
		diag  string
		wall  bool
		sites map[string]int // enumeration site -> max entries seen
	}
	type job struct{ in, ord int }
	var jobs []job
	for i := range inputs {
		for o := range orders {
			jobs = append(jobs, job{i, o})
		}
	}
	results := make([]obs, len(jobs))
	base := env.Dir("c05")
	scratch.Parallel(len(jobs), 16, func(i int) {
		j := jobs[i]
		d := filepath.Join(base, fmt.Sprintf("w%d", i%64), fmt.Sprintf("j%d", i))
		var envv []string
		logf := filepath.Join(d, "dict.log")
		os.MkdirAll(d, 0o755)
		files := inputs[j.in].files
		if orders[j.ord] == "native+stale-outputs" {
			files = map[string]string{}
			for n, c := range inputs[j.in].files {
				files[n] = c
			}
			stale := strings.Repeat("// stale line left by an earlier, longer output\n", 60000)
			for _, a := range inputs[j.in].args {
				if strings.HasSuffix(a, ".fo") {
					files[filepath.Join(filepath.Dir(a), "gen_"+strings.TrimSuffix(filepath.Base(a), ".fo")+".go")] = stale
				}
			}
		} else if orders[j.ord] != "" {
			envv = append(envv, "VERIF_DICT_ORDER="+orders[j.ord])
		}
		if j.ord == len(orders)-1 || j.ord == 0 {
			envv = append(envv, "VERIF_DICT_LOG="+logf)
		}
		out := fcx.Transpile(fc, env.PkgAll(), d, files, inputs[j.in].args, envv, 120)
		o := obs{exit: out.Res.Exit, gens: out.Gen, diag: out.Diag(), wall: out.Res.WallOut, sites: map[string]int{}}
		var names []string
		for n := range out.Gen {
			names = append(names, n)
		}
		sort.Strings(names)
		var sb strings.Builder
		for _, n := range names {
			sb.WriteString(n + ":" + core.Hash(out.Gen[n]) + ";")
		}
		o.sig = sb.String()
		if b, err := os.ReadFile(logf); err == nil {
			for _, l := range strings.Split(string(b), "\n") {
				f := strings.Fields(l)
				if len(f) == 2 {
					var n int
					fmt.Sscan(f[1], &n)
					site := strings.TrimPrefix(f[0], "main.")
					if n > o.sites[site] {
						o.sites[site] = n
					}
				}
			}
		}
		results[i] = o
		os.RemoveAll(d)
	})
	var rejectedValid []string
	siteMax := map[string]int{}
	kinds := map[string]int64{}
	for i, j := range jobs {
		in := inputs[j.in]
		o := results[i]
		r.Eval(in.id+"@"+orders[j.ord]+fmt.Sprint(j.ord), orders[j.ord] != "")
		if orders[j.ord] == "native+stale-outputs" && o.exit != 0 {
			// a rejected input leaves the stale file in place (nothing is written for it): not comparable
			for n := range o.gens {
				delete(o.gens, n)
			}
			o.sig = results[i-j.ord].sig
			results[i] = o
		}
		kinds[in.kind]++
		for s, n := range o.sites {
			if n > siteMax[s] {
				siteMax[s] = n
			}
		}
		if o.wall {
			r.Inconclusive("watchdog")
			continue
		}
		ref := results[i-j.ord] // first member of the group
		if j.ord == 0 && o.exit != 0 && in.kind != "self-hosted" && !strings.HasPrefix(in.kind, "union-match-missing") && !strings.HasPrefix(in.kind, "constraint-shape-ill") {
			// an input built to be accepted is rejected: it reaches less of fc than intended
			rejectedValid = append(rejectedValid, in.id+": "+oneLineN(o.diag, 120))
		}
		cls := func(e int) string {
			if e == 0 {
				return "accept"
			}
			return "reject"
		}
		if cls(o.exit) != cls(ref.exit) || o.sig != ref.sig {
			files := map[string]string{"executions.txt": fmt.Sprintf("reference execution: native order, exit=%d, outputs=%s\nthis execution: VERIF_DICT_ORDER=%q, exit=%d, outputs=%s\n--- reference diagnostic\n%s\n--- this diagnostic\n%s\n", ref.exit, ref.sig, orders[j.ord], o.exit, o.sig, ref.diag, o.diag)}
			for n, c := range in.files {
				files["input/"+n] = c
			}
			var differing []string
			for n, c := range o.gens {
				if ref.gens[n] != c {
					differing = append(differing, n)
					files["diff_"+n+".txt"] = udiff([]byte(ref.gens[n]), []byte(c), "native/"+n, orders[j.ord]+"/"+n)
				}
			}
			what := fmt.Sprintf("two executions on the same input disagree (order %q): ", orders[j.ord])
			if cls(o.exit) != cls(ref.exit) {
				what += fmt.Sprintf("one accepts, the other rejects (exit %d vs %d)", ref.exit, o.exit)
			} else {
				what += fmt.Sprintf("output files differ: %v", differing)
			}
			// one witness per input
			sig := "nondeterministic:" + in.id
			if in.kind != "self-hosted" && in.kind != "sample" {
				sig = "nondeterministic:" + in.kind + ":" + core.Hash(fmt.Sprint(in.files))
			}
			r.Violate(sig, what+" ["+in.id+"]", files)
		}
	}
	r.Set("inputs", len(inputs))
	r.Set("inputs_built_to_be_accepted_but_rejected", rejectedValid)
	r.Set("executions_per_input", len(orders))
	r.Set("orders", orders)
	r.Set("input_kinds_x_executions", kinds)
	r.Set("h1_enumeration_sites_max_entries", siteMax)
	// the anchored sites must have been reached with >= 2 entries
	for _, must := range []string{"scLookupRecFacCur", "exaustiveCheck", "piRegAll", "eqsUnion", "eqsItems"} {
		found := false
		for s, n := range siteMax {
			if strings.Contains(s, must) && n >= 2 {
				found = true
			}
		}
		if !found {
			r.Inconclusive("hook H1 never saw an enumeration with >= 2 entries at " + must)
		}
	}
	r.Sample(map[string]any{"input": inputs[len(inputs)-4].id, "source": strings.Split(inputs[len(inputs)-4].files["x.fo"], "\n")})
	r.Sample(map[string]any{"input": inputs[len(inputs)-3].id, "source": strings.Split(inputs[len(inputs)-3].files["x.fo"], "\n")})
}
