package checks

import (
	"crypto/sha256"
	"encoding/hex"
	"fmt"
	"os"
	"os/exec"
	"path/filepath"
	"sort"
	"strings"
	"sync"

	"verif/internal/core"
	"verif/internal/scratch"
)

func init() { register("C04", "exploration", runC04) }

var fcOrderFallback = []string{"ftype.fo", "ast.fo", "expr_to_type.fo", "expr_to_go.fo", "stmt_to_go.fo", "tokenizer.fo", "ast_util.fo", "ir_factory.fo", "parse_state.fo", "infer.fo", "parser.fo", "main.fo"}

// fcSourceOrder reads the file order of the self-hosted build from fc/fc_all.sh.
func fcSourceOrder(repo string) []string {
	b, err := os.ReadFile(filepath.Join(repo, "fc", "fc_all.sh"))
	if err != nil {
		return fcOrderFallback
	}
	for _, line := range strings.Split(string(b), "\n") {
		line = strings.TrimSpace(line)
		if strings.HasPrefix(line, "./fc ") {
			var out []string
			for _, w := range strings.Fields(line)[1:] {
				if strings.HasSuffix(w, ".fo") {
					out = append(out, w)
				}
			}
			if len(out) > 0 {
				return out
			}
		}
	}
	return fcOrderFallback
}

func sampleList(repo string) []string {
	b, err := os.ReadFile(filepath.Join(repo, "samples", "filelist.txt"))
	if err != nil {
		return nil
	}
	var out []string
	for _, line := range strings.Split(string(b), "\n") {
		f := strings.Fields(line)
		if len(f) > 0 {
			out = append(out, f[0])
		}
	}
	return out
}

func sha(b []byte) string {
	h := sha256.Sum256(b)
	return hex.EncodeToString(h[:])[:16]
}

func copyTree(src, dst string) error {
	out, err := exec.Command("rsync", "-a", src+"/", dst+"/").CombinedOutput()
	if err != nil {
		return fmt.Errorf("rsync: %v %s", err, out)
	}
	return nil
}

func gofmtFiles(dir string, files []string) error {
	if len(files) == 0 {
		return nil
	}
	cmd := exec.Command("gofmt", append([]string{"-w"}, files...)...)
	cmd.Dir = dir
	if out, err := cmd.CombinedOutput(); err != nil {
		return fmt.Errorf("gofmt in %s: %v %s", dir, err, out)
	}
	return nil
}

// regenerate runs the repository's own regeneration recipes with the given fc
// binary in a copy W of the tree whose generated files were deleted first.
// It returns relative path -> bytes of every regenerated file.
// CPU time of the self-translation per generation (observed only: no verdict rests on it; it made a
// thirteen-fold slowdown introduced by one of the repairs visible, see DESIGN §8, 4f61070)
var c04SelfCPU sync.Map

func regenerate(env *scratch.Env, fc string, label string, fcEnv []string) (map[string][]byte, string, error) {
	W := env.Dir("regen-" + label)
	if err := copyTree(env.Repo, W); err != nil {
		return nil, W, err
	}
	order := fcSourceOrder(env.Repo)
	samples := sampleList(env.Repo)
	var want []string
	for _, f := range order {
		want = append(want, "fc/gen_"+strings.TrimSuffix(f, ".fo")+".go")
	}
	for _, f := range samples {
		want = append(want, "samples/gen_"+strings.TrimSuffix(f, ".fo")+".go")
	}
	want = append(want, "cmd/build_sample_md/gen_build_sample_md.go", "samples/README.md")
	for _, f := range want {
		os.Remove(filepath.Join(W, f))
	}
	runFC := func(dir string, args ...string) error {
		res := scratch.Run(scratch.Cmd{Path: fc, Args: args, Dir: dir, Env: fcEnv, CPUSec: 120, WallSec: 600})
		if len(args) > 2 {
			c04SelfCPU.Store(label, res.CPU.Milliseconds())
		}
		if res.Exit != 0 || res.WallOut {
			return fmt.Errorf("fc %s in %s: exit=%d signal=%s\nstdout: %s\nstderr: %s", strings.Join(args, " "), dir, res.Exit, res.Signal, tail(res.Stdout, 800), tail(res.Stderr, 1500))
		}
		return nil
	}
	// 1. the compiler's own sources, one invocation, in fc_all.sh order
	fcDir := filepath.Join(W, "fc")
	if err := runFC(fcDir, append([]string{"../pkg/pkg_all.foi"}, order...)...); err != nil {
		return nil, W, err
	}
	var gens []string
	for _, f := range order {
		gens = append(gens, "gen_"+strings.TrimSuffix(f, ".fo")+".go")
	}
	if err := gofmtFiles(fcDir, gens); err != nil {
		return nil, W, err
	}
	// 2. samples, one invocation each (samples/myfc.sh)
	sDir := filepath.Join(W, "samples")
	for _, f := range samples {
		if err := runFC(sDir, "../pkg/pkg_all.foi", f); err != nil {
			return nil, W, err
		}
		if err := gofmtFiles(sDir, []string{"gen_" + strings.TrimSuffix(f, ".fo") + ".go"}); err != nil {
			return nil, W, err
		}
	}
	// 3. the tool
	bDir := filepath.Join(W, "cmd", "build_sample_md")
	if err := runFC(bDir, "../../pkg/pkg_all.foi", "build_sample_md.fo"); err != nil {
		return nil, W, err
	}
	if err := gofmtFiles(bDir, []string{"gen_build_sample_md.go"}); err != nil {
		return nil, W, err
	}
	// 4. README.md through the tool rebuilt from the regenerated source
	bsm := filepath.Join(env.Bin, "bsm-"+label)
	if err := env.GoBuild(bDir, bsm, ""); err != nil {
		return nil, W, err
	}
	res := scratch.Run(scratch.Cmd{Path: bsm, Args: []string{"filelist.txt"}, Dir: sDir, CPUSec: 60, WallSec: 300})
	if res.Exit != 0 {
		return nil, W, fmt.Errorf("build_sample_md filelist.txt: exit=%d\n%s\n%s", res.Exit, tail(res.Stdout, 500), tail(res.Stderr, 1500))
	}
	out := map[string][]byte{}
	for _, f := range want {
		b, err := os.ReadFile(filepath.Join(W, f))
		if err != nil {
			return nil, W, fmt.Errorf("regeneration did not produce %s", f)
		}
		out[f] = b
	}
	return out, W, nil
}

func tail(s string, n int) string {
	if len(s) <= n {
		return s
	}
	return "…" + s[len(s)-n:]
}

func udiff(a, b []byte, la, lb string) string {
	da, _ := os.CreateTemp("", "vda")
	db, _ := os.CreateTemp("", "vdb")
	defer os.Remove(da.Name())
	defer os.Remove(db.Name())
	da.Write(a)
	db.Write(b)
	da.Close()
	db.Close()
	out, _ := exec.Command("diff", "-u", "--label", la, "--label", lb, da.Name(), db.Name()).CombinedOutput()
	s := string(out)
	if len(s) > 20000 {
		s = s[:20000] + "\n…(truncated)\n"
	}
	return s
}

func runC04(r *core.Run, tier string) {
	env, err := scratch.New("C04")
	if err != nil {
		r.Inconclusive("scratch: " + err.Error())
		return
	}
	defer env.Close()
	r.Rule("a case is one (generated file, compiler generation) pair: each checked-in fc/gen_*.go, each samples/gen_*.go listed in filelist.txt, cmd/build_sample_md/gen_build_sample_md.go and samples/README.md is regenerated with the compiler built from the working tree (generation 1) and with the compiler built from that regenerated output (generation 2) and compared byte for byte after gofmt; every file is non-trivial (non-empty); distinct by path and generation")
	r.Assume("gofmt of the installed Go toolchain is the formatter the checked-in files were produced with", "generation 1 is built from the working tree's gen_*.go + wrapper.go with the verif tag (hooks inert unless their environment variables are set)")
	fc1, err := env.FC()
	if err != nil {
		r.Violate("gen1-build-failed", "the compiler does not build from the working tree: "+err.Error(), map[string]string{"error.txt": err.Error()})
		return
	}
	g1, _, err := regenerate(env, fc1, "g1", nil)
	if err != nil {
		r.Violate("gen1-regeneration-failed", "regeneration with the generation-1 compiler failed: "+oneLineN(err.Error(), 300), map[string]string{"error.txt": err.Error()})
		return
	}
	var names []string
	for k := range g1 {
		names = append(names, k)
	}
	sort.Strings(names)
	files := []map[string]any{}
	for _, f := range names {
		cur, err := os.ReadFile(filepath.Join(env.Repo, f))
		key := "g1:" + f
		r.Eval(key, len(g1[f]) > 0)
		if err != nil {
			r.Violate("missing-checked-in:"+f, "checked-in file missing: "+f, map[string]string{"regenerated": string(g1[f])})
			continue
		}
		files = append(files, map[string]any{"file": f, "bytes": len(cur), "sha256_16": sha(cur), "gen1_equal": string(cur) == string(g1[f])})
		if string(cur) != string(g1[f]) {
			r.Violate("diff:g1:"+f, fmt.Sprintf("%s differs from what the rebuilt compiler regenerates (generation 1)", f),
				map[string]string{"diff.txt": udiff(cur, g1[f], "checked-in/"+f, "regenerated-gen1/"+f)})
		}
	}
	// generation 2: compiler built from the regenerated sources
	g2repo := env.Dir("gen2repo")
	if err := copyTree(env.Repo, g2repo); err != nil {
		r.Inconclusive(err.Error())
		return
	}
	for f, b := range g1 {
		if strings.HasPrefix(f, "fc/") {
			os.WriteFile(filepath.Join(g2repo, f), b, 0o644)
		}
	}
	fc2 := filepath.Join(env.Bin, "fc-gen2")
	if err := env.GoBuild(filepath.Join(g2repo, "fc"), fc2, "verif"); err != nil {
		r.Violate("gen2-build-failed", "the regenerated compiler sources do not build: "+oneLineN(err.Error(), 300), map[string]string{"error.txt": err.Error()})
		return
	}
	g2, _, err := regenerate(env, fc2, "g2", nil)
	if err != nil {
		r.Violate("gen2-regeneration-failed", "regeneration with the generation-2 compiler failed: "+oneLineN(err.Error(), 300), map[string]string{"error.txt": err.Error()})
		return
	}
	for _, f := range names {
		r.Eval("g2:"+f, len(g2[f]) > 0)
		if string(g2[f]) != string(g1[f]) {
			r.Violate("diff:g2:"+f, fmt.Sprintf("%s: generation-2 compiler output differs from generation-1 output", f),
				map[string]string{"diff.txt": udiff(g1[f], g2[f], "gen1/"+f, "gen2/"+f)})
		}
	}
	if tier == "thorough" {
		c04UnderOrders(r, env, fc1, g1, names)
	}
	r.Set("files", files)
	r.Set("generations", 2)
	cpu := map[string]int64{}
	c04SelfCPU.Range(func(k, v any) bool { cpu[k.(string)] = v.(int64); return true })
	r.Set("self_translation_cpu_ms", cpu)
	r.Set("self_hosted_sources", fcSourceOrder(env.Repo))
	r.Set("samples_listed", len(sampleList(env.Repo)))
	r.Sample(map[string]any{"file": "fc/gen_parser.go", "gen1_sha": sha(g1["fc/gen_parser.go"]), "gen2_sha": sha(g2["fc/gen_parser.go"]), "bytes": len(g1["fc/gen_parser.go"])})
	r.Sample(map[string]any{"file": "samples/README.md", "gen1_sha": sha(g1["samples/README.md"]), "gen2_sha": sha(g2["samples/README.md"]), "bytes": len(g1["samples/README.md"])})
	r.Exhaustive(true)
}

// c04UnderOrders repeats the generation-1 regeneration under controlled
// dictionary enumeration orders (hook H1): the fixed point must not depend on
// Go's map order.
func c04UnderOrders(r *core.Run, env *scratch.Env, fc1 string, g1 map[string][]byte, names []string) {
	if !hookH1Present(env) {
		r.Set("dict_orders", "hook H1 not present in this tree; order sweep skipped")
		return
	}
	orders := []string{"asc", "desc", fmt.Sprintf("shuffle:%d", r.SeedV), fmt.Sprintf("shuffle:%d", r.SeedV+1)}
	for _, o := range orders {
		g, _, err := regenerate(env, fc1, "ord-"+strings.ReplaceAll(o, ":", "-"), []string{"VERIF_DICT_ORDER=" + o})
		if err != nil {
			r.Violate("order-regeneration-failed:"+o, "regeneration under dictionary order "+o+" failed: "+oneLineN(err.Error(), 300), map[string]string{"error.txt": err.Error()})
			continue
		}
		for _, f := range names {
			r.Eval("ord:"+o+":"+f, true)
			if string(g[f]) != string(g1[f]) {
				r.Violate("diff:order:"+f, fmt.Sprintf("%s: output under dictionary order %s differs from native-order output", f, o),
					map[string]string{"diff.txt": udiff(g1[f], g[f], "native/"+f, o+"/"+f)})
			}
		}
	}
	r.Set("dict_orders", orders)
}

func hookH1Present(env *scratch.Env) bool {
	_, err := os.Stat(filepath.Join(env.Repo, "pkg", "dict", "dict_verif_on.go"))
	return err == nil
}

func oneLineN(s string, n int) string {
	s = strings.Join(strings.Fields(s), " ")
	if len(s) > n {
		s = s[:n] + "…"
	}
	return s
}
