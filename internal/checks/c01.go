package checks

import (
	"fmt"
	"os"
	"path/filepath"
	"sort"
	"strings"

	"verif/internal/core"
	"verif/internal/fo"
	"verif/internal/scratch"
)

func init() { register("C01", "exploration", runC01) }

func reportProgCases(r *core.Run, cases []*progCase, prefix string) (ok int) {
	for _, c := range cases {
		files := map[string]string{"x.fo": c.src, "expected_stdout.txt": c.expect, "observed_stdout.txt": c.got, "gen_x.go": c.gen, "detail.txt": c.status + "\n" + c.detail + "\n", "fc_diag.txt": c.fcDiag}
		switch c.status {
		case "ok":
			ok++
		case "inconclusive":
			r.Inconclusive("watchdog on " + c.name)
		case "fc-rejected":
			if strings.HasPrefix(c.key, "corpus/") {
				r.Violate(prefix+"rejected:"+c.key+"#"+core.Hash(lastLine(c.fcDiag)), "well-typed program of the documented subset rejected: "+c.detail, files)
				continue
			}
			r.Violate(prefix+"rejected:"+c.key, "well-typed program of the documented subset rejected: "+c.detail, files)
		case "go-compile-error":
			r.Violate(prefix+"go-compile:"+c.key, "emitted Go does not compile: "+oneLineN(c.detail, 300), files)
		case "panic":
			r.Violate(prefix+"panic:"+c.key, "compiled program panics: "+oneLineN(c.detail, 200), files)
		case "died":
			r.Violate(prefix+"died:"+c.key, "compiled program died: "+oneLineN(c.detail, 200), files)
		case "mismatch":
			if strings.HasPrefix(c.key, "corpus/") {
				// a corpus witness is identified together with the wrong output it produces, so
				// that a different misbehaviour of the same program is still reported
				r.Violate(prefix+"output:"+c.key+"#"+core.Hash(c.got), "program output differs from the reference semantics: "+c.detail, files)
				continue
			}
			r.Violate(prefix+"output:"+c.key, "program output differs from the reference semantics: "+c.detail, files)
		}
	}
	return ok
}

// corpusCase is a hand-kept program with its expected output (corpus/c01/*.fo + .out).
func loadCorpus(dir string, start int) []*progCase {
	var out []*progCase
	ents, _ := os.ReadDir(dir)
	var names []string
	for _, e := range ents {
		if strings.HasSuffix(e.Name(), ".fo") {
			names = append(names, e.Name())
		}
	}
	sort.Strings(names)
	for i, n := range names {
		src, err := os.ReadFile(filepath.Join(dir, n))
		if err != nil {
			continue
		}
		exp, err := os.ReadFile(filepath.Join(dir, strings.TrimSuffix(n, ".fo")+".out"))
		if err != nil {
			continue
		}
		name := fmt.Sprintf("p%d", start+i)
		s := strings.Replace(string(src), "package main", "package "+name, 1)
		s = strings.TrimRight(s, "\n") + "\n"
		out = append(out, &progCase{name: name, src: s, expect: string(exp), key: "corpus/" + n})
	}
	return out
}

func runC01(r *core.Run, tier string) {
	env, err := scratch.New("C01")
	if err != nil {
		r.Inconclusive("scratch: " + err.Error())
		return
	}
	defer env.Close()
	fc, err := env.FC()
	if err != nil {
		r.Inconclusive("fc does not build: " + err.Error())
		return
	}
	n := 1000
	if tier == "thorough" {
		n = 12000
	}
	r.Rule("a case is one generated program (records, unions, 4..12 functions, nested blocks; every effect site calls a tracer with a unique tag) or one hand-kept corpus program; it is transpiled by the rebuilt fc, compiled with go build against the real pkg/*, run, and its complete stdout (tagged event log + observer output) compared with the prediction of the reference evaluator (strict, left-to-right, lexically scoped) on the same abstract program; non-trivial = the predicted log contains at least 3 tracer events; distinct by source hash")
	r.Assume("generated programs stay inside the documented subset listed in DESIGN.md §1.2 (fully annotated parameters, used bindings, no same-block rebinding)", "supplied arguments of partial applications that are not invoked at once are effect free (known finding C01/partial-application-lazy-arguments)", "observer functions are generated in Folang itself, so printed text depends only on Folang semantics")
	cases, discarded, why := genCases(r.SeedV, "c01", fo.ProfileC01, n, 0)
	corpus := loadCorpus(filepath.Join(core.VerifRoot(), "corpus", "c01"), 1000000)
	all := append(append([]*progCase{}, cases...), corpus...)
	transpileAll(fc, env.PkgAll(), env, "c01fc", all)
	for _, s := range runAll(env, "c01run", all, 100) {
		r.Inconclusive("execution batch: " + s)
	}
	feats := map[string]int64{}
	events := int64(0)
	for _, c := range all {
		ev := strings.Count(c.expect, "\nE ") + 1
		events += int64(ev)
		r.Eval(c.key, ev >= 3)
		for f, k := range c.feats {
			feats[f] += int64(k)
		}
	}
	ok := reportProgCases(r, all, "")
	st := map[string]int64{}
	for _, c := range all {
		st[c.status]++
	}
	r.Set("outcomes", st)
	fmt.Println("outcomes:", st)
	r.Set("programs_generated", len(cases))
	r.Set("corpus_programs", len(corpus))
	r.Set("programs_agreeing_with_reference", ok)
	r.Set("generator_discards", discarded)
	if discarded > 0 {
		r.Set("generator_discard_reasons", why)
	}
	r.Set("tracer_events_predicted", events)
	r.Set("feature_histogram", feats)
	for _, must := range []string{"lambda", "pipe", "union-match-exhaustive", "union-match-default", "string-match", "if-else", "record-literal", "destructuring-let", "string-interpolation", "partial-application-as-value", "inner-function", "tracer"} {
		if feats[must] == 0 {
			r.Inconclusive("feature never generated: " + must)
		}
	}
	if discarded*5 > n {
		r.Inconclusive(fmt.Sprintf("%d of %d generated programs discarded by the reference evaluator", discarded, n))
	}
	for i := 0; i < 2 && i < len(cases); i++ {
		r.Sample(map[string]any{"source": strings.Split(cases[i].src, "\n"), "predicted_stdout": strings.Split(cases[i].expect, "\n")})
	}
}

func lastLine(s string) string {
	ls := strings.Split(strings.TrimSpace(s), "\n")
	return strings.TrimSpace(ls[len(ls)-1])
}
