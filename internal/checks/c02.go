package checks

import (
	"fmt"
	"go/ast"
	"go/parser"
	"go/printer"
	"go/token"
	"os"
	"path/filepath"
	"strings"

	"verif/internal/core"
	"verif/internal/fcx"
	"verif/internal/fo"
	"verif/internal/goextract"
	"verif/internal/hm"
	"verif/internal/scratch"
)

func init() { register("C02", "exploration", runC02) }

func normSig(sig string) string {
	fset := token.NewFileSet()
	f, err := parser.ParseFile(fset, "s.go", "package p\n"+sig+"\n", parser.SkipObjectResolution)
	if err != nil || len(f.Decls) == 0 {
		return "UNPARSABLE(" + sig + ")"
	}
	fd, ok := f.Decls[0].(*ast.FuncDecl)
	if !ok {
		return "UNPARSABLE(" + sig + ")"
	}
	var b strings.Builder
	printer.Fprint(&b, fset, fd)
	return strings.Join(strings.Fields(b.String()), " ")
}

type c02Variant struct {
	base       int  // index of the base function
	mask       int  // erased parameters
	annotRet   bool // the result type is annotated (`let f a b : T = ...`)
	src        string
	name       string
	params     []string
	want       string // expected signature (normalised), "" if HM fails
	hmErr      string
	sameAsBase bool
	got        string
	decl       string
	exit       int
	diag       string
	gen        string
}

// c02Generic: generic functions used at two different instantiations, executed.
func c02GenericPrograms(rng *core.Rand, n int, start int) []*progCase {
	var out []*progCase
	bodies := []struct {
		params int
		body   string // over a b c
		// result at instantiation (types of a,b,c): rendering expression given the call expression
		render func(call string, ty []string) string
		expect func(vals []string, ty []string) string
		sameAB bool
	}{
		{2, "(a, b)", func(c string, ty []string) string {
			return fmt.Sprintf("sh_%s (frt.Fst (%s)) + \"|\" + sh_%s (frt.Snd (%s))", ty[0], c, ty[1], c)
		}, func(v, ty []string) string { return v[0] + "|" + v[1] }, false},
		{2, "(b, a)", func(c string, ty []string) string {
			return fmt.Sprintf("sh_%s (frt.Fst (%s)) + \"|\" + sh_%s (frt.Snd (%s))", ty[1], c, ty[0], c)
		}, func(v, ty []string) string { return v[1] + "|" + v[0] }, false},
		{2, "slice.Head [a; b]", func(c string, ty []string) string { return fmt.Sprintf("sh_%s (%s)", ty[0], c) }, func(v, ty []string) string { return v[0] }, true},
		{3, "frt.Snd (a, slice.Last [b; c])", func(c string, ty []string) string { return fmt.Sprintf("sh_%s (%s)", ty[1], c) }, func(v, ty []string) string { return v[2] }, false},
		{2, "(slice.Length [a], b)", func(c string, ty []string) string {
			return fmt.Sprintf("sh_int (frt.Fst (%s)) + \"|\" + sh_%s (frt.Snd (%s))", c, ty[1], c)
		}, func(v, ty []string) string { return "1|" + v[1] }, false},
		{1, "[a; a]", func(c string, ty []string) string {
			return fmt.Sprintf("sh_int (slice.Length (%s)) + sh_%s (slice.Head (%s))", c, ty[0], c)
		}, func(v, ty []string) string { return "2" + v[0] }, false},
		{2, "frt.Fst (a, b)", func(c string, ty []string) string { return fmt.Sprintf("sh_%s (%s)", ty[0], c) }, func(v, ty []string) string { return v[0] }, false},
		{3, "(frt.Fst (a, b), c)", func(c string, ty []string) string {
			return fmt.Sprintf("sh_%s (frt.Fst (%s)) + \"|\" + sh_%s (frt.Snd (%s))", ty[0], c, ty[2], c)
		}, func(v, ty []string) string { return v[0] + "|" + v[2] }, false},
	}
	lit := func(ty string, k int) (string, string) {
		switch ty {
		case "int":
			return fmt.Sprint(10 + k), fmt.Sprint(10 + k)
		case "string":
			return fmt.Sprintf("%q", fmt.Sprint("s", k)), fmt.Sprint("s", k)
		}
		if k%2 == 0 {
			return "true", "T"
		}
		return "false", "F"
	}
	tys := []string{"int", "string", "bool"}
	for i := 0; i < n; i++ {
		name := fmt.Sprintf("p%d", start+i)
		var b, w strings.Builder
		fmt.Fprintf(&b, "package %s\n\nimport frt\nimport slice\n\nlet sh_int (v:int) =\n  frt.Sprintf1 \"%%d\" v\n\nlet sh_string (v:string) =\n  v\n\nlet sh_bool (v:bool) =\n  if v then \"T\" else \"F\"\n\n", name)
		var run strings.Builder
		nf := 2 + rng.Intn(3)
		for f := 0; f < nf; f++ {
			bd := bodies[rng.Intn(len(bodies))]
			ps := []string{"a", "b", "c"}[:bd.params]
			fmt.Fprintf(&b, "let gen%d %s =\n  %s\n\n", f, strings.Join(ps, " "), bd.body)
			// two independent instantiations
			for inst := 0; inst < 2; inst++ {
				ty := make([]string, bd.params)
				for k := range ty {
					ty[k] = tys[(rng.Intn(3)+inst)%3]
				}
				if bd.sameAB {
					ty[1] = ty[0]
				}
				if bd.params == 3 && strings.Contains(bd.body, "[b; c]") {
					ty[2] = ty[1]
				}
				var args, vals []string
				for k := range ty {
					a, v := lit(ty[k], rng.Intn(50))
					args = append(args, a)
					vals = append(vals, v)
				}
				call := fmt.Sprintf("gen%d %s", f, strings.Join(args, " "))
				fmt.Fprintf(&run, "  frt.Println (%s)\n", bd.render(call, ty))
				w.WriteString(bd.expect(vals, ty) + "\n")
			}
		}
		b.WriteString("let Run () =\n" + run.String() + "  frt.Println \"end\"\n")
		w.WriteString("end\n")
		src := b.String()
		if !strings.Contains(strings.Replace(src, "import slice", "", 1), "slice.") {
			src = strings.Replace(src, "import slice\n", "", 1)
		}
		out = append(out, &progCase{name: name, src: src, expect: w.String(), key: "generic-use:" + core.Hash(src)})
	}
	return out
}

// a generic union and a generic record of the constraint-shape functions (declared in their prelude)
var c02GOpt = &fo.UnionDef{Name: "GOpt", Generic: true, TArg: fo.TVar("T"), Cases: []fo.UCase{{Name: "GSome", Payload: fo.TVar("T")}, {Name: "GNone"}}}
var c02GBox = &fo.RecordDef{Name: "GBox", Generic: true, Fields: []fo.Field{{Name: "GItem", T: fo.TVar("T")}, {Name: "GCnt", T: fo.TInt}}}
var c02GenericPrelude = []fo.Decl{
	&fo.RawDecl{Names: []string{"GOpt", "GSome", "GNone"}, Text: "type GOpt<T> =\n| GSome of T\n| GNone"},
	&fo.RawDecl{Names: []string{"GBox", "GItem", "GCnt"}, Text: "type GBox<T> = {GItem: T; GCnt: int}"},
}

// c02Shape builds one unannotated function whose body is a sequence of lets that put
// constraints on the parameters in a random order - each parameter is first tied to a
// structured type of its own (slice / tuple / function) and parameters are unified with
// each other late - and returns everything it bound in nested pairs. Statements that the
// independent inference rejects are not added, so the function is well typed by construction.
func c02Shape(rng *core.Rand, name string) *fo.FuncDef { return c02ShapeOpt(rng, name, false) }

// c02ShapeOpt with ill = true inserts one or two statements that give a variable two
// disagreeing constraints in one step (the rest stays well typed without them): C05 uses
// these to see that fc's verdict and output on conflicting constraints do not depend on an
// enumeration order.
func c02ShapeOpt(rng *core.Rand, name string, ill bool) *fo.FuncDef {
	illLeft := 0
	if ill {
		illLeft = 1 + rng.Intn(2)
	}
	illStmts := map[int][]fo.Stmt{} // position among the well-typed statements -> conflicting statements placed before it
	var illLets []string
	k := 2 + rng.Intn(3)
	f := &fo.FuncDef{Name: name, Pure: true}
	var names []string
	for i := 0; i < k; i++ {
		p := fmt.Sprintf("p%d", i)
		f.Params = append(f.Params, fo.Param{Name: p, NoAnnot: true, T: fo.TVar("?")})
		names = append(names, p)
	}
	v := func(n string) fo.Expr { return &fo.Var{Name: n} }
	call := func(fn string, args ...fo.Expr) fo.Expr { return &fo.Call{Fn: v(fn), Args: args} }
	var stmts []fo.Stmt
	var lets []string
	prog := &fo.Program{}
	typable := func(ss []fo.Stmt, res fo.Expr) bool {
		t := *f
		t.Body = &fo.Block{Stmts: ss, Result: res}
		_, err := hm.New(prog).InferFunc(&t)
		return err == nil
	}
	pick := func() string { return names[rng.Intn(len(names))] }
	n := 3 + rng.Intn(6)
	for i := 0; i < n*3 && len(lets) < n; i++ {
		x, y := pick(), pick()
		var e fo.Expr
		switch rng.Intn(20) {
		case 17:
			// explicit type arguments: the instantiation alone types the (un-annotated) arguments
			ta := core.Pick(rng, []*fo.Type{fo.TInt, fo.TString})
			e = &fo.Call{Fn: v(core.Pick(rng, []string{"slice.PushLast", "slice.PushHead"})), TArgs: []*fo.Type{ta}, Args: []fo.Expr{v(x), v(y)}}
		case 18:
			e = &fo.Call{Fn: v("slice.Zip"), TArgs: []*fo.Type{fo.TInt, core.Pick(rng, []*fo.Type{fo.TString, fo.TBool})}, Args: []fo.Expr{v(x), v(y)}}
		case 19:
			e = &fo.Call{Fn: v(core.Pick(rng, []string{"slice.Head", "slice.Last"})), TArgs: []*fo.Type{core.Pick(rng, []*fo.Type{fo.TInt, fo.TString, fo.TSlice(fo.TInt)})}, Args: []fo.Expr{v(x)}}
		case 14:
			e = &fo.Ctor{Union: c02GOpt, Case: 0, Arg: v(x)}
		case 15:
			e = &fo.RecLit{Rec: c02GBox, Fields: []fo.Expr{v(x), &fo.IntLit{V: 1}}}
		case 16:
			e = &fo.SliceLit{Elems: []fo.Expr{&fo.Ctor{Union: c02GOpt, Case: 0, Arg: v(x)}, &fo.Ctor{Union: c02GOpt, Case: 0, Arg: v(y)}}}
		case 0, 1:
			e = call("slice.Head", v(x))
		case 2:
			e = call(core.Pick(rng, []string{"frt.Fst", "frt.Snd"}), v(x))
		case 3, 4:
			e = &fo.SliceLit{Elems: []fo.Expr{v(x), v(y)}}
		case 5:
			e = &fo.BinOp{Op: core.Pick(rng, []string{"=", "<>"}), L: v(x), R: v(y)}
		case 6:
			e = call("slice.Append", v(x), v(y))
		case 7:
			e = &fo.TupleLit{Elems: []fo.Expr{v(x), v(y)}}
		case 8:
			e = call("slice.Length", v(x))
		case 9:
			e = &fo.BinOp{Op: "+", L: v(x), R: &fo.IntLit{V: 1}}
		case 10:
			e = call("slice.PushLast", v(x), v(y))
		case 11:
			e = call("slice.Zip", v(x), v(y))
		case 12:
			e = call("slice.Last", call("slice.Tail", v(x)))
		default:
			e = call("slice.Concat", &fo.SliceLit{Elems: []fo.Expr{v(x), v(y)}})
		}
		if illLeft > 0 && rng.Chance(0.3) {
			// a statement that gives one variable two disagreeing constraints in a single step
			lits := []fo.Expr{&fo.IntLit{V: 1}, &fo.StrLit{V: "a"}, &fo.BoolLit{V: true}}
			li := rng.Intn(3)
			lit, lit2 := lits[li], lits[(li+1+rng.Intn(2))%3]
			pair := func(a, b fo.Expr) fo.Expr { return &fo.TupleLit{Elems: []fo.Expr{a, b}} }
			one := func(a fo.Expr) fo.Expr { return &fo.SliceLit{Elems: []fo.Expr{a}} }
			// x twice, or two parameters already unified by an earlier statement
			a, bb := v(x), v(x)
			if rng.Chance(0.3) {
				bb = v(y)
			}
			switch rng.Intn(5) {
			case 0:
				e = &fo.SliceLit{Elems: []fo.Expr{pair(a, bb), pair(lit, lit2)}}
			case 1:
				e = &fo.BinOp{Op: "=", L: pair(a, bb), R: pair(lit, lit2)}
			case 2:
				e = call("slice.PushHead", pair(a, bb), one(pair(lit, lit2)))
			case 3:
				e = call("slice.Append", one(pair(a, bb)), one(pair(lit, lit2)))
			default:
				e = call("slice.PushLast", pair(lit, lit2), one(pair(bb, a)))
			}
			illLeft--
			ln := fmt.Sprintf("w%d", len(illLets))
			illStmts[len(stmts)] = append(illStmts[len(stmts)], &fo.Let{Name: ln, E: e})
			illLets = append(illLets, ln)
			continue
		}
		ln := fmt.Sprintf("v%d", len(lets))
		cand := append(append([]fo.Stmt{}, stmts...), &fo.Let{Name: ln, E: e})
		if typable(cand, v(ln)) {
			stmts = cand
			lets = append(lets, ln)
			names = append(names, ln)
		}
	}
	// result: all lets in right-nested pairs (so that no type variable is phantom)
	var res fo.Expr = v(lets[len(lets)-1])
	for i := len(lets) - 2; i >= 0; i-- {
		res = &fo.TupleLit{Elems: []fo.Expr{v(lets[i]), res}}
	}
	if len(illLets) > 0 {
		var all []fo.Stmt
		for i := 0; i <= len(stmts); i++ {
			all = append(all, illStmts[i]...)
			if i < len(stmts) {
				all = append(all, stmts[i])
			}
		}
		stmts = all
		for _, w := range illLets {
			res = &fo.TupleLit{Elems: []fo.Expr{v(w), res}}
		}
	}
	f.Body = &fo.Block{Stmts: stmts, Result: res}
	return f
}

func runC02(r *core.Run, tier string) {
	env, err := scratch.New("C02")
	if err != nil {
		r.Inconclusive("scratch: " + err.Error())
		return
	}
	defer env.Close()
	fc, err := env.FC()
	if err != nil {
		r.Inconclusive("fc does not build: " + err.Error())
		return
	}
	nProg, perProg := 40, 4
	if tier == "thorough" {
		nProg, perProg = 750, 4
	}
	r.Rule("a case is one variant of one function: functions are generated from the constructs for which inference is promised (arithmetic / comparison / = with a typed operand, calls to library and earlier user functions with known signatures, record and union construction, tuples, slices, destructuring lets, pipes, function-typed parameters applied once) with every parameter annotated; for a function with k parameters all 2^k subsets of annotations are erased (k <= 4), each with and without an annotation of the result type; each variant is transpiled alone (after its fixed prelude) and the emitted signature, extracted with go/parser, is compared with the translation of the principal type computed by an independent Hindley-Milner inference (type parameters T0.. by first occurrence in parameters then result, constraint any); where erasure leaves the principal type unchanged the whole emitted declaration must be byte-identical to the annotated one; the fully annotated packages are type-checked by go build; programs calling one generic function at two different instantiations are compiled, run and compared with the expected output; non-trivial = at least one annotation erased; distinct by variant source hash")
	r.Assume("bodies stay inside the list of constructs the documentation promises inference for (no match, no if, no field access on unannotated values, no lambdas)", "the independent inference is textbook unification with generalisation at top-level definitions")
	var variants []*c02Variant
	type baseInfo struct {
		prog   *fo.Program
		f      *fo.FuncDef
		upTo   int // index in prog.Decls
		scheme *hm.Scheme
	}
	var bases []baseInfo
	var typecheck []*progCase
	for pi := 0; pi < nProg; pi++ {
		pkg := fmt.Sprintf("p%d", pi)
		var prog *fo.Program
		var subjects []*fo.FuncDef
		func() {
			defer func() { recover() }()
			prog, subjects = fo.GenerateC02(core.NewRand(r.SeedV, fmt.Sprintf("c02/%d", pi)), pkg, perProg)
		}()
		if prog == nil {
			r.Count("generator_discards", 1)
			continue
		}
		// type-check the fully annotated package with go build
		full := &fo.Program{Pkg: pkg, Imports: prog.Imports, Decls: append(append([]fo.Decl{}, prog.Decls...), &fo.FuncDef{Name: "Run", Ret: fo.TUnit, Body: fo.ExprBlock(&fo.Call{Fn: &fo.Var{Name: "frt.Println"}, Args: []fo.Expr{&fo.StrLit{V: "ok"}}})})}
		src := fo.Print(full, nil)
		// Go rejects unused imports: keep only the packages the text uses
		var imps []string
		for _, im := range prog.Imports {
			if im == "frt" || strings.Contains(src, im+".") {
				imps = append(imps, im)
			}
		}
		full.Imports = imps
		src = fo.Print(full, nil)
		typecheck = append(typecheck, &progCase{name: pkg, prog: full, src: src, expect: "ok\n", key: "typecheck:" + core.Hash(src)})
		// schemes of all functions, in order, from the fully annotated text
		in := hm.New(prog)
		for di, d := range prog.Decls {
			f, ok := d.(*fo.FuncDef)
			if !ok {
				continue
			}
			isSubject := false
			for _, s := range subjects {
				if s == f {
					isSubject = true
				}
			}
			if isSubject && len(f.Params) <= 4 {
				bi := len(bases)
				k := len(f.Params)
				for mask2 := 0; mask2 < 2<<k; mask2++ {
					// the top bit of mask2 = result annotation present (never on the base variant's turn first:
					// the un-annotated-result variants come first so that mask 0 / no result annotation is the base)
					mask, annotRet := mask2&(1<<k-1), mask2>>k == 1
					// a fresh inferer per variant: earlier functions keep their annotated schemes
					inv := hm.New(prog)
					for dj := 0; dj < di; dj++ {
						if g, ok := prog.Decls[dj].(*fo.FuncDef); ok {
							if sc, err := inv.InferFunc(g); err == nil {
								inv.Declare(g.Name, sc)
							}
						}
					}
					vf := *f
					vf.Params = append([]fo.Param{}, f.Params...)
					var pnames []string
					for i := range vf.Params {
						vf.Params[i].NoAnnot = mask>>i&1 == 1
						pnames = append(pnames, vf.Params[i].Name)
					}
					vf.AnnotRet = annotRet
					v := &c02Variant{base: bi, mask: mask, annotRet: annotRet, name: f.Name, params: pnames}
					sc, err := inv.InferFunc(&vf)
					isBase := mask == 0 && !annotRet
					if err != nil {
						v.hmErr = err.Error()
					} else {
						v.want = normSig(hm.GoSignature(f.Name, pnames, sc))
						if isBase {
							bases = append(bases, baseInfo{prog, f, di, sc})
						} else if len(bases) > bi && bases[bi].scheme != nil {
							v.sameAsBase = hm.Equal(sc, bases[bi].scheme)
						}
					}
					if isBase && err != nil {
						bases = append(bases, baseInfo{prog, f, di, nil})
					}
					vp := &fo.Program{Pkg: pkg, Imports: prog.Imports, Decls: append(append([]fo.Decl{}, prog.Decls[:di]...), &vf)}
					v.src = fo.Print(vp, nil)
					variants = append(variants, v)
				}
			}
			if sc, err := in.InferFunc(f); err == nil {
				in.Declare(f.Name, sc)
			}
		}
	}
	// constraint-shape functions: unannotated parameters tied to structured types and unified late
	nShapes := 300
	if tier == "thorough" {
		nShapes = 6000
	}
	for i := 0; i < nShapes; i++ {
		var f *fo.FuncDef
		func() {
			defer func() { recover() }()
			f = c02Shape(core.NewRand(r.SeedV, fmt.Sprintf("c02shape/%d", i)), fmt.Sprintf("shape%d", i))
		}()
		if f == nil || len(f.Body.Stmts) == 0 {
			continue
		}
		sc, err := hm.New(&fo.Program{}).InferFunc(f)
		if err != nil {
			continue
		}
		var pnames []string
		for _, p := range f.Params {
			pnames = append(pnames, p.Name)
		}
		vp := &fo.Program{Pkg: "main", Imports: []string{"frt", "slice"}, Decls: append(append([]fo.Decl{}, c02GenericPrelude...), f)}
		variants = append(variants, &c02Variant{base: -1, mask: 1<<len(f.Params) - 1, src: fo.Print(vp, nil), name: f.Name, params: pnames, want: normSig(hm.GoSignature(f.Name, pnames, sc))})
		r.Count("constraint_shape_functions", 1)
	}
	// hand-written probes: two instantiations of one generic type whose underscore-joined spellings
	// coincide (P2<Qa_Qb, Qc> / P2<Qa, Qb_Qc>); a field / payload read from each has its own type
	{
		types := "type Qa_Qb = {Fqab: int}\n\ntype Qc = {Fqc: int}\n\ntype Qa = {Fqa: string}\n\ntype Qb_Qc = {Fqbc: int}\n\ntype P2<T, U> = {P2a: T; P2b: U}\n\ntype Pu2<T, U> =\n| Pu2a of T\n| Pu2b of U\n\n"
		probes := []struct{ name, body, want string }{
			{"probeKeyA", "let probeKeyA (p:P2<Qa_Qb, Qc>) (q:P2<Qa, Qb_Qc>) =\n  (p.P2a, q.P2a)\n", "func probeKeyA(p P2[Qa_Qb, Qc], q P2[Qa, Qb_Qc]) frt.Tuple2[Qa_Qb, Qa]"},
			{"probeKeyB", "let probeKeyB (q:P2<Qa, Qb_Qc>) (p:P2<Qa_Qb, Qc>) =\n  (p.P2b, q.P2b)\n", "func probeKeyB(q P2[Qa, Qb_Qc], p P2[Qa_Qb, Qc]) frt.Tuple2[Qc, Qb_Qc]"},
			{"probeKeyU", "let probeKeyU (p:Pu2<Qa_Qb, Qc>) (q:Pu2<Qa, Qb_Qc>) (dx:Qa_Qb) (dy:Qa) =\n  let x =\n    match p with\n    | Pu2a v -> v\n    | Pu2b _ -> dx\n  let y =\n    match q with\n    | Pu2a v -> v\n    | Pu2b _ -> dy\n  (x, y)\n", "func probeKeyU(p Pu2[Qa_Qb, Qc], q Pu2[Qa, Qb_Qc], dx Qa_Qb, dy Qa) frt.Tuple2[Qa_Qb, Qa]"},
		}
		for _, pb := range probes {
			variants = append(variants, &c02Variant{base: -1, mask: 1, src: "package main\n\nimport frt\n\n" + types + pb.body, name: pb.name, want: normSig(pb.want)})
			r.Count("hand_written_signature_probes", 1)
		}
		// literals of generic records with two and three type parameters: every parameter is its own
		// variable (the generated functions only know one-parameter generics)
		types = "type GP2<T, U> = {P2x: T; P2y: U}\n\ntype GP3<T, U, V> = {P3x: T; P3y: U; P3z: V}\n\n"
		for _, pb := range []struct{ name, body, want string }{
			{"mkP2", "let mkP2 a b =\n  {P2x=a; P2y=b}\n", "func mkP2[T0 any, T1 any](a T0, b T1) GP2[T0, T1]"},
			{"labelP2", "let labelP2 (n:int) (s:string) =\n  {P2x=n + 1; P2y=s + \"!\"}\n", "func labelP2(n int, s string) GP2[int, string]"},
			{"swapP2", "let swapP2 a b =\n  ({P2x=a; P2y=b}, {P2x=b; P2y=a})\n", "func swapP2[T0 any, T1 any](a T0, b T1) frt.Tuple2[GP2[T0, T1], GP2[T1, T0]]"},
			{"halfP2", "let halfP2 a (n:int) =\n  {P2y=n * 2; P2x=a}\n", "func halfP2[T0 any](a T0, n int) GP2[T0, int]"},
			{"mkP3", "let mkP3 a b c =\n  {P3x=a; P3y=b; P3z=c}\n", "func mkP3[T0 any, T1 any, T2 any](a T0, b T1, c T2) GP3[T0, T1, T2]"},
			{"mixP3", "let mixP3 a (s:string) b =\n  {P3x=[a]; P3y=s; P3z=(b, a)}\n", "func mixP3[T0 any, T1 any](a T0, s string, b T1) GP3[[]T0, string, frt.Tuple2[T1, T0]]"},
		} {
			variants = append(variants, &c02Variant{base: -1, mask: 1, src: "package main\n\nimport frt\n\n" + types + pb.body, name: pb.name, want: normSig(pb.want)})
			r.Count("hand_written_signature_probes", 1)
		}
	}
	// transpile every variant alone
	base := env.Dir("c02")
	scratch.Parallel(len(variants), 16, func(i int) {
		v := variants[i]
		d := filepath.Join(base, fmt.Sprintf("w%d", i%64), fmt.Sprintf("v%d", i))
		out := fcx.Transpile(fc, env.PkgAll(), d, map[string]string{"x.fo": v.src}, []string{"x.fo"}, nil, 30)
		v.exit, v.diag, v.gen = out.Res.Exit, out.Diag(), out.Gen["gen_x.go"]
		if v.exit == 0 && v.gen != "" {
			if sigs, err := goextract.FuncSigs(v.gen); err == nil {
				v.got = sigs[v.name]
			}
			if ds, err := goextract.Decls(v.gen); err == nil {
				for _, dd := range ds {
					if dd.Key == v.name && dd.Kind == "func" {
						v.decl = dd.Text
					}
				}
			}
		}
		os.RemoveAll(d)
	})
	baseDecl := map[int]string{}
	for _, v := range variants {
		if v.mask == 0 && !v.annotRet {
			baseDecl[v.base] = v.decl
		}
	}
	var nGeneric, nRedundant, nMoreGeneral, nSkipped int
	for _, v := range variants {
		r.Eval(core.Hash(v.src), v.mask != 0 || v.annotRet)
		files := map[string]string{"x.fo": v.src, "gen_x.go": v.gen, "diag.txt": v.diag, "expected_signature.txt": v.want + "\n", "emitted_signature.txt": v.got + "\n"}
		tag := fmt.Sprintf("%s erased-params-mask=%d", v.name, v.mask)
		if v.annotRet {
			tag += " result-annotated"
		}
		if v.hmErr != "" {
			nSkipped++
			continue
		}
		if strings.Contains(v.want, "T0") {
			nGeneric++
		}
		switch {
		case v.exit != 0 || v.gen == "":
			r.Violate("variant-rejected:"+core.Hash(v.src), "a function whose types the body determines is rejected after erasing annotations ("+tag+"): "+oneLineN(v.diag, 200), files)
		case v.got == "":
			r.Violate("variant-no-signature:"+core.Hash(v.src), "no func declaration emitted for "+tag, files)
		case v.got != v.want:
			r.Violate("signature:"+core.Hash(v.src), fmt.Sprintf("%s: emitted `%s`, the principal type gives `%s`", tag, v.got, v.want), files)
		default:
			if (v.mask != 0 || v.annotRet) && v.sameAsBase {
				nRedundant++
				if v.decl != baseDecl[v.base] {
					files["annotated_decl.go"] = baseDecl[v.base]
					files["erased_decl.go"] = v.decl
					r.Violate("redundant-annotation-changes-code:"+core.Hash(v.src), "erasing annotations that the body already determines changes the emitted code ("+tag+")", files)
				}
			} else if v.mask != 0 || v.annotRet {
				nMoreGeneral++
			}
		}
	}
	// Go type-check of the annotated packages, and generic functions used at two instantiations
	gen := c02GenericPrograms(core.NewRand(r.SeedV, "c02gen"), nProg, 500000)
	exec := append(append([]*progCase{}, typecheck...), gen...)
	transpileAll(fc, env.PkgAll(), env, "c02fc", exec)
	for _, s := range runAll(env, "c02run", exec, 100) {
		r.Inconclusive("execution batch: " + s)
	}
	for _, c := range exec {
		r.Eval(c.key, true)
	}
	okExec := reportProgCases(r, exec, "")
	r.Set("variants", len(variants))
	r.Set("base_functions", len(bases))
	r.Set("variants_with_generic_principal_type", nGeneric)
	r.Set("variants_where_erasure_is_redundant_compared_bytewise", nRedundant)
	r.Set("variants_where_erasure_generalises_the_type", nMoreGeneral)
	r.Set("variants_outside_subset_skipped", nSkipped)
	r.Set("packages_type_checked_or_run", len(exec))
	r.Set("packages_type_checked_or_run_ok", okExec)
	if nRedundant == 0 || nMoreGeneral == 0 || nGeneric == 0 {
		r.Inconclusive("some class of variants was never produced (redundant / generalising / generic)")
	}
	for _, i := range []int{1, 7, len(variants) - 1} {
		if i < len(variants) {
			v := variants[i]
			lines := strings.Split(strings.TrimSpace(v.src), "\n")
			from := 0
			for li, l := range lines {
				if strings.HasPrefix(l, "let "+v.name+" ") {
					from = li
				}
			}
			r.Sample(map[string]any{"function": lines[from:], "erased_mask": v.mask, "principal_signature": v.want, "emitted_signature": v.got})
		}
	}
}
