package checks

import (
	"fmt"
	"os"
	"path/filepath"
	"regexp"
	"sort"
	"strings"
	"sync"

	"verif/internal/core"
	"verif/internal/fo"
	"verif/internal/scratch"
)

func init() { register("C16", "fault_enumeration", runC16) }

// One execution of the real fc binary.
type c16Exec struct {
	id       string            // stable identifier of the case (class + content hash)
	class    string            // mutation / fault class
	files    map[string]string // files written before the run (relative)
	mkdirs   []string          // directories created before the run (e.g. the gen path itself)
	pre      map[string]string // output files present before the run (stale content); not part of the baseline run
	preOf    string            // "prefix:N" / "same" / "same+tail": stale gen_x.go derived from the fault-free output
	symlinks map[string]string // symbolic links created before the run (name -> target)
	args     []string          // fc arguments after pkg_all.foi (relative to the run directory)
	noPkgAll bool
	inject   string            // strace injection expression ("" = none)
	injPath  string            // path the injection is restricted to (relative)
	faultOut bool              // the fault concerns the output path: leftover partial output tolerated
	baseline map[string]string // fault-free output to compare with on exit 0 (nil = only existence)
	heavy    bool              // may cost seconds and a lot of memory on a defective tree
	mustFail bool              // an input that cannot be read at all: exit 0 is a violation
	sentinel string            // text the output must contain on exit 0 (the translation of the input's last definition)
	devFull  bool              // the output path is /dev/full: exit 0 is a violation whatever is read back
	scale    bool              // size-scaled input: its cost legitimately grows with the size (own CPU budget; exceeding it is inconclusive)
	desc     string
}

type c16Obs struct {
	exit            int
	signal          string
	cpuOut, wallOut bool
	stdout, stderr  string
	gen             map[string]string
	cpuMs           int64
	straceLog       string
	judgedFine      bool // already judged in the worker; bulky fields dropped
}

func keepInjected(log string) string {
	if strings.Contains(log, "(INJECTED)") {
		return "(INJECTED)"
	}
	return ""
}

var c16DiagRe = regexp.MustCompile(`(?m)^[^\n]*\S: +\S`)

// judge applies the rules of the property to one observation.
func c16Judge(e *c16Exec, o *c16Obs) (class, what string) {
	if o.wallOut {
		return "inconclusive", "wall-clock watchdog"
	}
	if o.cpuOut && e.scale {
		return "inconclusive", fmt.Sprintf("size-scaled input exceeded its CPU budget (%d ms used): termination not decided", o.cpuMs)
	}
	if o.cpuOut {
		return "hang", fmt.Sprintf("fc exceeded the CPU budget (%d ms used) - does not terminate", o.cpuMs)
	}
	if strings.Contains(o.stderr, "fatal error:") || strings.Contains(o.stderr, "goroutine stack exceeds") {
		first := o.stderr
		if i := strings.Index(first, "\n"); i > 0 {
			first = first[:i]
		}
		return "fatal", "fc died of a Go runtime fatal error: " + oneLineN(first, 160)
	}
	if o.signal != "" {
		return "fatal", "fc died by signal " + o.signal
	}
	var requested []string
	for _, a := range e.args {
		if strings.HasSuffix(a, ".fo") {
			requested = append(requested, filepath.Join(filepath.Dir(a), "gen_"+strings.TrimSuffix(filepath.Base(a), ".fo")+".go"))
		}
	}
	if o.exit == 0 && e.mustFail {
		return "exit0-unreadable-input", "exit status 0 although an input file cannot be read"
	}
	if o.exit == 0 && e.devFull {
		return "exit0-incomplete-output", "exit status 0 although no byte of the output could be written (destination /dev/full)"
	}
	if o.exit == 0 {
		for _, g := range requested {
			c, ok := o.gen[g]
			if !ok {
				return "exit0-missing-output", "exit status 0 but " + g + " was not written"
			}
			if e.sentinel != "" && !strings.Contains(c, e.sentinel) {
				return "exit0-incomplete-output", fmt.Sprintf("exit status 0 but %s (%d bytes) lacks the translation of the input's last definition (%s)", g, len(c), e.sentinel)
			}
			if e.baseline != nil {
				if want, ok := e.baseline[g]; ok && want != c {
					return "exit0-incomplete-output", fmt.Sprintf("exit status 0 but %s differs from the fault-free output (%d vs %d bytes)", g, len(c), len(want))
				}
			}
		}
		return "", ""
	}
	// non-zero exit: a diagnostic must have been printed
	diag := ""
	for _, l := range strings.Split(o.stdout, "\n") {
		if strings.HasPrefix(l, "transpile: ") || strings.HasPrefix(l, "Usage:") {
			continue
		}
		diag += l + "\n"
	}
	hasDiag := c16DiagRe.MatchString(diag) || strings.Contains(o.stderr, "panic:")
	if !hasDiag {
		return "no-diagnostic", fmt.Sprintf("exit status %d without a diagnostic (stdout %q, stderr %q)", o.exit, oneLineN(o.stdout, 120), oneLineN(o.stderr, 120))
	}
	// nothing written for the offending file = the last one fc announced
	offending := ""
	for _, l := range strings.Split(o.stdout, "\n") {
		if strings.HasPrefix(l, "transpile: ") {
			offending = strings.TrimPrefix(l, "transpile: ")
		}
	}
	if offending != "" && strings.HasSuffix(offending, ".fo") && !e.faultOut {
		g := filepath.Join(filepath.Dir(offending), "gen_"+strings.TrimSuffix(filepath.Base(offending), ".fo")+".go")
		if _, ok := o.gen[g]; ok {
			return "output-for-offending-file", fmt.Sprintf("exit status %d but %s was written for the offending file", o.exit, g)
		}
	}
	return "", ""
}

func c16Run(fc, pkgAll, dir string, e *c16Exec, cpuSec int) *c16Obs {
	os.MkdirAll(dir, 0o755)
	for n, c := range e.files {
		p := filepath.Join(dir, n)
		os.MkdirAll(filepath.Dir(p), 0o755)
		os.WriteFile(p, []byte(c), 0o644)
	}
	for _, d := range e.mkdirs {
		os.MkdirAll(filepath.Join(dir, d), 0o755)
	}
	for n, c := range e.pre {
		os.WriteFile(filepath.Join(dir, n), []byte(c), 0o644)
	}
	for n, t := range e.symlinks {
		os.Symlink(t, filepath.Join(dir, n))
	}
	var args []string
	if !e.noPkgAll {
		args = append(args, pkgAll)
	}
	args = append(args, e.args...)
	cmd := scratch.Cmd{Path: fc, Args: args, Dir: dir, CPUSec: cpuSec, WallSec: 180, MaxOut: 1 << 20}
	logPath := ""
	if e.inject != "" {
		logPath = filepath.Join(dir, "strace.log")
		sargs := []string{"-f", "-o", logPath, "-P", e.injPath, "-P", filepath.Join(dir, e.injPath), "-e", "trace=openat,write,close,fsync,rename,unlink", "-e", "inject=" + e.inject, fc}
		cmd.Path = "strace"
		cmd.Args = append(sargs, args...)
	}
	res := scratch.Run(cmd)
	o := &c16Obs{exit: res.Exit, signal: res.Signal, cpuOut: res.CPUOut, wallOut: res.WallOut, stdout: res.Stdout, stderr: res.Stderr,
		gen: map[string]string{}, cpuMs: res.CPU.Milliseconds()}
	if logPath != "" {
		b, _ := os.ReadFile(logPath)
		o.straceLog = string(b)
	}
	filepath.Walk(dir, func(p string, info os.FileInfo, err error) error {
		if err != nil || !info.Mode().IsRegular() { // (a symbolic link to /dev/full must never be read)
			return nil
		}
		if strings.HasPrefix(filepath.Base(p), "gen_") && strings.HasSuffix(p, ".go") {
			rel, _ := filepath.Rel(dir, p)
			b, _ := os.ReadFile(p)
			o.gen[rel] = string(b)
		}
		return nil
	})
	return o
}

// ---- workload ---------------------------------------------------------------

// c16Lex splits a source into tokens (words, numbers, strings, comments,
// punctuation, white-space runs) for token-level mutation.
func c16Lex(s string) []string {
	var out []string
	i := 0
	isW := func(c byte) bool {
		return c == '_' || c >= '0' && c <= '9' || c >= 'a' && c <= 'z' || c >= 'A' && c <= 'Z'
	}
	for i < len(s) {
		j := i
		c := s[i]
		switch {
		case c == ' ' || c == '\t':
			for j < len(s) && (s[j] == ' ' || s[j] == '\t') {
				j++
			}
		case c == '\n':
			j++
		case isW(c):
			for j < len(s) && isW(s[j]) {
				j++
			}
		case c == '"':
			j++
			for j < len(s) && s[j] != '"' {
				if s[j] == '\\' {
					j++
				}
				j++
			}
			if j < len(s) {
				j++
			}
			if j > len(s) {
				j = len(s)
			}
		case c == '`':
			j++
			for j < len(s) && s[j] != '`' {
				j++
			}
			if j < len(s) {
				j++
			}
		case c == '/' && i+1 < len(s) && s[i+1] == '/':
			for j < len(s) && s[j] != '\n' {
				j++
			}
		case c == '/' && i+1 < len(s) && s[i+1] == '*':
			k := strings.Index(s[i+2:], "*/")
			if k < 0 {
				j = len(s)
			} else {
				j = i + 2 + k + 2
			}
		case (c == '-' || c == '|' || c == '<' || c == '>') && i+1 < len(s) && strings.ContainsRune(">=", rune(s[i+1])):
			j += 2
		default:
			j++
		}
		out = append(out, s[i:j])
		i = j
	}
	return out
}

var c16GeneratedSeeds = 2

type c16Seed struct {
	name string
	src  string
}

func c16Seeds(env *scratch.Env) []c16Seed {
	var seeds []c16Seed
	add := func(name, path string) {
		b, err := os.ReadFile(path)
		if err == nil && len(b) > 0 {
			seeds = append(seeds, c16Seed{name, string(b)})
		}
	}
	for _, f := range sampleList(env.Repo) {
		add("samples/"+f, filepath.Join(env.Repo, "samples", f))
	}
	add("samples/noarg_funcall.fo", filepath.Join(env.Repo, "samples", "noarg_funcall.fo"))
	ents, _ := os.ReadDir(filepath.Join(core.VerifRoot(), "corpus", "seeds"))
	for _, e := range ents {
		if strings.HasSuffix(e.Name(), ".fo") {
			add("corpus/"+e.Name(), filepath.Join(core.VerifRoot(), "corpus", "seeds", e.Name()))
		}
	}
	for _, f := range []string{"tokenizer.fo", "expr_to_type.fo", "main.fo"} {
		add("fc/"+f, filepath.Join(env.Repo, "fc", f))
	}
	add("cmd/build_sample_md.fo", filepath.Join(env.Repo, "cmd", "build_sample_md", "build_sample_md.fo"))
	// generated programs (every documented construct in one file)
	for i := 0; i < c16GeneratedSeeds; i++ {
		func() {
			defer func() { recover() }()
			p, _ := fo.Generate(core.NewRand(core.Seed(), fmt.Sprintf("c16seed/%d", i)), fo.ProfileC01, "main")
			seeds = append(seeds, c16Seed{fmt.Sprintf("generated/%d", i), fo.Print(p, nil)})
		}()
	}
	sort.Slice(seeds, func(i, j int) bool { return seeds[i].name < seeds[j].name })
	return seeds
}

// c16Dag: n named types, each mentioning the previous one twice, and a function over the last.
func c16Dag(kind string, n int) string {
	var b strings.Builder
	b.WriteString("package main\n\n")
	switch kind {
	case "record":
		b.WriteString("type R0 = {A0: int; B0: int}\n\n")
		for i := 1; i <= n; i++ {
			fmt.Fprintf(&b, "type R%d = {A%d: R%d; B%d: R%d}\n\n", i, i, i-1, i, i-1)
		}
		fmt.Fprintf(&b, "let f (r:R%d) =\n  r.A%d\n", n, n)
	case "union":
		b.WriteString("type U0 =\n| A0 of int\n| B0\n\n")
		for i := 1; i <= n; i++ {
			fmt.Fprintf(&b, "type U%d =\n| A%d of U%d\n| B%d of U%d\n\n", i, i, i-1, i, i-1)
		}
		fmt.Fprintf(&b, "let f (u:U%d) =\n  match u with\n  | A%d _ -> 1\n  | B%d _ -> 2\n", n, n, n)
	case "mixed":
		b.WriteString("type R0 = {A0: int; B0: int}\n\ntype U0 =\n| P0 of R0*R0\n| Q0\n\n")
		for i := 1; i <= n; i++ {
			fmt.Fprintf(&b, "type R%d = {A%d: []U%d; B%d: U%d}\n\ntype U%d =\n| P%d of R%d*R%d\n| Q%d\n\n", i, i, i-1, i, i-1, i, i, i, i, i)
		}
		fmt.Fprintf(&b, "let f (u:U%d) =\n  match u with\n  | P%d _ -> 1\n  | Q%d -> 2\n", n, n, n)
	case "generic-record":
		b.WriteString("type G0<T> = {A0: T; B0: T}\n\n")
		for i := 1; i <= n; i++ {
			fmt.Fprintf(&b, "type G%d<T> = {A%d: G%d<T>; B%d: G%d<T>}\n\n", i, i, i-1, i, i-1)
		}
		fmt.Fprintf(&b, "let f (g:G%d<int>) =\n  g.A%d\n", n, n)
	case "generic-union":
		b.WriteString("type V0<T> =\n| A0 of T\n| B0\n\n")
		for i := 1; i <= n; i++ {
			fmt.Fprintf(&b, "type V%d<T> =\n| A%d of V%d<T>\n| B%d of V%d<T>\n\n", i, i, i-1, i, i-1)
		}
		fmt.Fprintf(&b, "let f (v:V%d<int>) =\n  match v with\n  | A%d _ -> 1\n  | B%d _ -> 2\n", n, n, n)
	}
	return b.String()
}

// self-referential / ill-typed definitions (each a complete file)
var c16IllTyped = []struct{ name, src string }{
	{"self-apply", "package main\n\nlet f x =\n  x x\n"},
	{"self-apply-2", "package main\n\nlet f x y =\n  x y x\n"},
	{"push-self", "package main\n\nimport slice\n\nlet f x =\n  slice.PushLast x x\n"},
	{"head-self", "package main\n\nimport slice\n\nlet f x =\n  slice.PushHead (slice.Head x) (slice.Head x)\n"},
	{"tuple-self", "package main\n\nimport frt\n\nlet f x =\n  frt.Fst x = x\n"},
	{"mutual-vars", "package main\n\nlet f a b =\n  let c = a b\n  let d = b a\n  c d\n"},
	{"slice-of-self", "package main\n\nlet f x =\n  [x] = x\n"},
	// mistakes fc only notices while it produces the Go text (after parsing and inference), placed
	// between valid definitions: still a diagnostic, still nothing written
	{"late-unclosed-hole", "package main\n\nimport frt\n\nlet a () =\n  1\n\nlet f (name:string) =\n  $\"HELLO {name\"\n\nlet z () =\n  2\n"},
	{"late-lone-open-brace", "package main\n\nimport frt\n\nlet a () =\n  1\n\nlet f (name:string) =\n  $\"{\"\n\nlet z () =\n  2\n"},
	{"late-unclosed-raw-hole", "package main\n\nimport frt\n\nlet a () =\n  1\n\nlet f (name:string) =\n  $`x {name`\n\nlet z () =\n  2\n"},
	{"late-unclosed-hole-in-match", "package main\n\nimport frt\n\ntype U =\n| A of int\n| B\n\nlet a () =\n  1\n\nlet f (u:U) (name:string) =\n  match u with\n  | A i -> $\"{i} {name\"\n  | B -> name\n"},
	{"recursive-record", "package main\n\ntype T = {A: T}\n\nlet f (t:T) =\n  t.A\n"},
	{"recursive-record-slice", "package main\n\nimport frt\nimport slice\n\ntype Tree = {Val: int; Kids: []Tree}\n\nlet size (t:Tree) =\n  slice.Length t.Kids\n\nlet main () =\n  let leaf = {Val=1; Kids=slice.New<Tree> ()}\n  frt.Printf1 \"%d\\n\" (size leaf)\n"},
	{"recursive-record-and", "package main\n\ntype A = {B: B}\nand B = {A: A}\n\nlet f (a:A) =\n  a.B\n"},
	{"recursive-record-generic", "package main\n\ntype N<T> = {V: T; Next: []N<T>}\n\nlet f (n:N<int>) =\n  n.V\n"},
	{"recursive-union", "package main\n\ntype L =\n| Cons of int*L\n| Nil\n\nlet f (l:L) =\n  match l with\n  | Cons p -> 1\n  | Nil -> 0\n"},
	{"recursive-union-record", "package main\n\ntype E =\n| Add of Pair\n| Lit of int\nand Pair = {L: E; R: E}\n\nlet f (e:E) =\n  match e with\n  | Add p -> 1\n  | Lit i -> i\n"},
	{"recursive-record-twice", "package main\n\nimport slice\n\ntype Tree = {Val: int; Left: []Tree; Right: []Tree}\n\nlet size (t:Tree) =\n  slice.Length t.Left + slice.Length t.Right\n"},
	{"recursive-record-twice-through-record", "package main\n\nimport slice\n\ntype Tree = {Val: int; Left: []Tree; Right: []Tree}\n\ntype Forest = {Trees: []Tree; Name: string}\n\nlet count (f:Forest) =\n  slice.Length f.Trees\n"},
	{"recursive-record-thrice-literal", "package main\n\nimport slice\n\ntype T3 = {A: []T3; B: []T3; C: []T3; N: int}\n\nlet leaf (n:int) =\n  {A=slice.New<T3> (); B=slice.New<T3> (); C=slice.New<T3> (); N=n}\n"},
	{"recursive-records-and-twice", "package main\n\nimport slice\n\ntype Pa = {Bs: []Pb; Cs: []Pb}\nand Pb = {As: []Pa; Os: []Pa}\n\nlet f (a:Pa) (b:Pb) =\n  slice.Length a.Bs + slice.Length b.Os\n"},
	{"recursive-generic-record-twice", "package main\n\ntype N2<T> = {V: T; L: []N2<T>; R: []N2<T>}\n\nlet f (n:N2<int>) =\n  n.V\n"},
	{"recursive-union-twice-through-record", "package main\n\ntype E2 =\n| Bin of Pr\n| Un of Pr\n| Lt of int\nand Pr = {L: E2; R: E2; M: []E2}\n\nlet f (e:E2) =\n  match e with\n  | Bin p -> 1\n  | Un p -> 2\n  | Lt i -> i\n"},
	{"recursive-union-pair-and-slice", "package main\n\ntype Tr =\n| Nd of Tr*Tr\n| Mn of []Tr\n| Lf of int\n\nlet f (t:Tr) =\n  match t with\n  | Nd p -> 1\n  | Mn ts -> 2\n  | Lf i -> i\n"},
	{"type-is-func-of-self", "package main\n\ntype T = {F: T->int}\n\nlet f (t:T) =\n  1\n"},
	{"lambda-self", "package main\n\nlet f () =\n  let g = fun x -> x x\n  1\n"},
	{"occurs-through-call", "package main\n\nlet app f x =\n  f x\n\nlet g x =\n  app x x\n"},
	{"deep-nesting", "package main\n\nlet f (a:int) =\n  " + strings.Repeat("(", 300) + "a" + strings.Repeat(")", 300) + "\n"},
	{"long-chain", "package main\n\nlet f (a:int) =\n  a" + strings.Repeat(" + a", 2000) + "\n"},
	{"many-params", "package main\n\nlet f " + strings.Repeat("a ", 150) + "=\n  1\n"},
}

func c16Workload(env *scratch.Env, tier string, rng *core.Rand) []*c16Exec {
	var out []*c16Exec
	if tier == "thorough" {
		c16GeneratedSeeds = 40
	}
	seeds := c16Seeds(env)
	mk := func(class, seedName, content string, extra func(e *c16Exec)) {
		e := &c16Exec{class: class, files: map[string]string{"x.fo": content}, args: []string{"x.fo"}}
		e.id = class + ":" + core.Hash(content, seedName)
		e.desc = class + " of " + seedName
		if extra != nil {
			extra(e)
		}
		out = append(out, e)
	}
	quick := tier != "thorough"
	for si, s := range seeds {
		src := s.src
		// --- truncation at every byte offset (quick: every offset of the small seeds, stride for large ones)
		stride := 1
		if quick && len(src) > 700 {
			stride = len(src)/350 + 1
		} else if !quick && len(src) > 6000 {
			stride = 3
		}
		for off := 0; off < len(src); off += stride {
			mk("truncate", fmt.Sprintf("%s@%d", s.name, off), src[:off], nil)
		}
		// --- token mutations
		toks := c16Lex(src)
		tstride := 1
		if quick && len(toks) > 150 {
			tstride = len(toks)/150 + 1
		}
		join := func(ts []string) string { return strings.Join(ts, "") }
		for i := 0; i < len(toks); i += tstride {
			if strings.TrimSpace(toks[i]) == "" && toks[i] != "\n" {
				continue
			}
			del := append(append([]string{}, toks[:i]...), toks[i+1:]...)
			mk("token-delete", fmt.Sprintf("%s#%d", s.name, i), join(del), nil)
			dup := append(append(append([]string{}, toks[:i+1]...), toks[i]), toks[i+1:]...)
			mk("token-duplicate", fmt.Sprintf("%s#%d", s.name, i), join(dup), nil)
			// swap with the next non-space token
			j := i + 1
			for j < len(toks) && strings.TrimSpace(toks[j]) == "" {
				j++
			}
			if j < len(toks) {
				sw := append([]string{}, toks...)
				sw[i], sw[j] = sw[j], sw[i]
				mk("token-swap", fmt.Sprintf("%s#%d", s.name, i), join(sw), nil)
			}
			if !quick || i%3 == 0 {
				// replace by a token from elsewhere in the file
				rp := append([]string{}, toks...)
				rp[i] = toks[rng.Intn(len(toks))]
				mk("token-replace", fmt.Sprintf("%s#%d", s.name, i), join(rp), nil)
			}
		}
		// --- indentation damage
		lines := strings.Split(src, "\n")
		for li := range lines {
			if strings.TrimSpace(lines[li]) == "" {
				continue
			}
			for _, d := range []int{-3, -2, -1, 1, 2, 3} {
				if quick && (li+d+si)%2 != 0 {
					continue
				}
				nl := append([]string{}, lines...)
				if d > 0 {
					nl[li] = strings.Repeat(" ", d) + nl[li]
				} else {
					k := 0
					for k < -d && k < len(nl[li]) && nl[li][k] == ' ' {
						k++
					}
					if k == 0 {
						continue
					}
					nl[li] = nl[li][k:]
				}
				mk("indent", fmt.Sprintf("%s:%d%+d", s.name, li, d), strings.Join(nl, "\n"), nil)
			}
			if strings.HasPrefix(lines[li], "  ") && (!quick || li%2 == 0) {
				nl := append([]string{}, lines...)
				nl[li] = "\t" + strings.TrimLeft(nl[li], " ")
				mk("indent-tab", fmt.Sprintf("%s:%d", s.name, li), strings.Join(nl, "\n"), nil)
			}
		}
		// --- line-ending conventions: the whole file saved with CRLF / CR / CR CR LF / LF CR line ends,
		// and that file cut in and after its line ends (a carriage return that lost its line feed)
		for _, le := range []struct{ name, nl string }{{"crlf", "\r\n"}, {"cr", "\r"}, {"crcrlf", "\r\r\n"}, {"lfcr", "\n\r"}} {
			conv := strings.ReplaceAll(src, "\n", le.nl)
			mk("line-ending", s.name+":"+le.name, conv, nil)
			nEnds := strings.Count(conv, le.nl)
			lstride := 1
			if quick && nEnds > 6 {
				lstride = nEnds/6 + 1
			}
			at, k := 0, 0
			for {
				i := strings.Index(conv[at:], le.nl)
				if i < 0 {
					break
				}
				at += i
				if k%lstride == 0 {
					for cut := 1; cut <= len(le.nl); cut++ {
						mk("line-ending-cut", fmt.Sprintf("%s:%s@%d+%d", s.name, le.name, at, cut), conv[:at+cut], nil)
					}
				}
				at += len(le.nl)
				k++
			}
		}
		// --- one hostile byte (control characters, bytes that are not UTF-8, a BOM, U+2028) inserted at a
		// token boundary: before a token, inside the line, at the line end
		{
			hostile := []string{"\r", "\x00", "\x0b", "\x0c", "\x1b", "\x7f", "\x80", "\xc3", "\xff", "\xef\xbb\xbf", "\xe2\x80\xa8", "\xc2\xa0"}
			var bounds []int
			off := 0
			for _, t := range toks {
				bounds = append(bounds, off)
				off += len(t)
			}
			per := 4
			if !quick {
				per = 40
			}
			for hi, hb := range hostile {
				for k := 0; k < per && len(bounds) > 0; k++ {
					b := bounds[(hi*131+k*977+si*31+rng.Intn(len(bounds)))%len(bounds)]
					mk("byte-insert", fmt.Sprintf("%s@%d+%q", s.name, b, hb), src[:b]+hb+src[b:], nil)
				}
			}
		}
		// --- unterminated constructs at the end and at line ends
		trimmed := strings.TrimRight(src, "\n")
		for _, tailS := range []string{"\n// comment without newline", "\n//", " // c", "\n/* open", "\n/*", "\n\"open", "\n`open", "\n$\"open {a", "\n$`open {", "\n{", "\n(", "\n[", "\n1", "\n\\", "\nlet", "\nlet x =", "\nlet f x =\n", "\ntype", "\ntype T =", "\ntype T = {", "\nmatch", "\n|", "\n|>", "\nif", "\nif a then", "\npackage_info", "\npackage_info x =", "\n  ", "\n\t", "\x00", "\n\xff\xfe", "\r\n", "\nlet y = 1 /", "\nlet z = \"a\\", "\nfun", "\nfun x ->"} {
			mk("dangling-tail", s.name+"+"+fmt.Sprintf("%q", tailS), trimmed+tailS, nil)
		}
		if len(lines) > 3 {
			for _, ins := range []string{"/*", "\"", "`", "$\"{", "(", "{", "[", "//"} {
				li := rng.Intn(len(lines))
				nl := append([]string{}, lines...)
				nl[li] = nl[li] + " " + ins
				mk("dangling-inline", fmt.Sprintf("%s:%d+%s", s.name, li, ins), strings.Join(nl, "\n"), nil)
			}
		}
	}
	// --- multi-file invocations: a valid first file, then a truncated second file that refers to it
	{
		first := "package main\n\ntype Pt = {X: int; Y: int}\n\nlet mk (a:int) =\n  {X=a; Y=a + 1}\n"
		second := "package main\n\nimport frt\n\nlet sum (p:Pt) =\n  p.X + p.Y\n\nlet main () =\n  frt.Printf1 \"%d\\n\" (sum (mk 3))\n"
		stride := 1
		if quick {
			stride = 3
		}
		for off := 0; off <= len(second); off += stride {
			e := &c16Exec{class: "multi-file-truncate", files: map[string]string{"a.fo": first, "b.fo": second[:off]}, args: []string{"a.fo", "b.fo"}}
			e.id = fmt.Sprintf("multi-file-truncate:%d", off)
			e.desc = fmt.Sprintf("two files, the second truncated at %d", off)
			out = append(out, e)
			e2 := &c16Exec{class: "multi-file-truncate", files: map[string]string{"a.fo": first[:off%len(first)], "b.fo": second}, args: []string{"a.fo", "b.fo"}}
			e2.id = fmt.Sprintf("multi-file-truncate-first:%d", off)
			e2.desc = fmt.Sprintf("two files, the first truncated at %d", off%len(first))
			out = append(out, e2)
		}
	}
	// --- random byte strings
	nRand := 600
	if !quick {
		nRand = 20000
	}
	alphabet := []string{"let ", "type ", "match ", "with", "|", "->", "=", " ", "\n", "  ", "(", ")", "{", "}", "[", "]", ";", ":", ",", "\"", "`", "$", "//", "/*", "*/", "a", "B", "1", "_", ".", "<", ">", "*", "+", "-", "/", "\\", "\x00", "\xff", "é", "package main\n", "import frt\n", "fun ", "if ", "then ", "else ", "of ", "and ", "not ", "package_info ", "\t"}
	for k := 0; k < nRand; k++ {
		var b strings.Builder
		if rng.Chance(0.7) {
			b.WriteString("package main\n")
		}
		n := 1 + rng.Intn(60)
		for i := 0; i < n; i++ {
			if rng.Chance(0.1) {
				b.WriteByte(byte(rng.Intn(256)))
			} else {
				b.WriteString(alphabet[rng.Intn(len(alphabet))])
			}
		}
		mk("random-bytes", fmt.Sprint(k), b.String(), nil)
	}
	// --- ill-typed / self-referential definitions
	for _, it := range c16IllTyped {
		mk("ill-typed", it.name, it.src, func(e *c16Exec) { e.heavy = true; e.id = "ill-typed:" + it.name })
	}
	// --- small inputs with shared substructure: chains of named types each mentioning the previous
	// one twice (a few hundred bytes to 3 KB; the work must not double with every level)
	for _, kind := range []string{"record", "union", "mixed", "generic-record", "generic-union"} {
		for _, n := range []int{12, 40} {
			kind, n := kind, n
			mk("ill-typed", fmt.Sprintf("%s-dag@%d", kind, n), c16Dag(kind, n), func(e *c16Exec) {
				e.heavy = true
				e.id = fmt.Sprintf("shared-substructure:%s-dag@%d", kind, n)
			})
		}
	}
	// --- argument-list faults
	good := "package main\n\nlet f (a:int) =\n  a + 1\n"
	bad := "package main\n\nlet f (a:int) =\n  a + \n"
	addArgs := func(name string, files map[string]string, mkdirs, args []string, noPkg bool) {
		out = append(out, &c16Exec{id: "args:" + name, class: "argument-list", files: files, mkdirs: mkdirs, args: args, noPkgAll: noPkg, desc: "argument list: " + name})
	}
	addArgs("missing-file", map[string]string{}, nil, []string{"nothere.fo"}, false)
	out[len(out)-1].mustFail = true
	addArgs("missing-second", map[string]string{"a.fo": good}, nil, []string{"a.fo", "nothere.fo"}, false)
	out[len(out)-1].mustFail = true
	addArgs("foi-only", map[string]string{"a.foi": "package_info q =\n  let F: int->int\n"}, nil, []string{"a.foi"}, false)
	addArgs("directory-as-argument", map[string]string{}, []string{"d.fo"}, []string{"d.fo"}, false)
	out[len(out)-1].mustFail = true
	addArgs("directory-as-second-argument", map[string]string{"a.fo": good}, []string{"d.fo"}, []string{"a.fo", "d.fo"}, false)
	out[len(out)-1].mustFail = true
	addArgs("bad-after-good", map[string]string{"a.fo": good, "b.fo": bad}, nil, []string{"a.fo", "b.fo"}, false)
	addArgs("good-after-bad", map[string]string{"a.fo": good, "b.fo": bad}, nil, []string{"b.fo", "a.fo"}, false)
	addArgs("same-file-twice", map[string]string{"a.fo": good}, nil, []string{"a.fo", "a.fo"}, false)
	addArgs("no-pkg-info", map[string]string{"a.fo": good}, nil, []string{"a.fo"}, true)
	addArgs("no-arguments", map[string]string{}, nil, nil, true)
	addArgs("empty-file", map[string]string{"a.fo": ""}, nil, []string{"a.fo"}, false)
	addArgs("only-package-line", map[string]string{"a.fo": "package main"}, nil, []string{"a.fo"}, false)
	addArgs("subdir-file", map[string]string{"sub/dir/a.fo": good}, nil, []string{"sub/dir/a.fo"}, false)
	// file names whose stem ends in the letters of the extension, contains dots, spaces, non-ASCII
	for _, n := range []string{"hello.fo", "f.fo", "o.fo", "go.fo", "off.fo", "a.b.fo", "x.fo.fo", "info.fo", "with space.fo", "日本.fo", "UPPER.fo", "gen_x.fo", "-dash.fo"} {
		addArgs("file-name:"+n, map[string]string{n: good}, nil, []string{n}, false)
	}
	addArgs("file-names-together", map[string]string{"hello.fo": good, "go.fo": strings.Replace(good, "let f ", "let g ", 1), "a.b.fo": strings.Replace(good, "let f ", "let h ", 1)}, nil, []string{"hello.fo", "go.fo", "a.b.fo"}, false)
	addArgs("non-fo-extension", map[string]string{"a.txt": good}, nil, []string{"a.txt"}, false)
	addArgs("bad-foi", map[string]string{"a.foi": "package_info q =\n  let F: int->\n", "a.fo": good}, nil, []string{"a.foi", "a.fo"}, false)
	// --- output faults
	addArgs("destination-is-a-directory", map[string]string{"a.fo": good}, []string{"gen_a.go"}, []string{"a.fo"}, false)
	addArgs("second-destination-is-a-directory", map[string]string{"a.fo": good, "b.fo": good}, []string{"gen_b.go"}, []string{"a.fo", "b.fo"}, false)
	out[len(out)-1].faultOut = true
	out[len(out)-2].faultOut = true
	return out
}

// ---- size-scaled inputs -----------------------------------------------------------
//
// One construct repeated or nested n times. fc is a recursive-descent, recursive-everything
// compiler: these inputs are the ones that can exhaust the goroutine stack or the memory (the
// "never dies of a Go runtime fatal error" clause). Sizes are chosen so that the unchanged
// tree needs a few seconds at most; the budget is CPU time.
type c16ScaleFam struct {
	name  string
	mk    func(n int) string
	quick []int
	thor  []int // additional sizes of the thorough tier
}

func c16ScaleFamilies() []c16ScaleFam {
	const H = "package main\n\nimport frt\nimport slice\n\n"
	rep := strings.Repeat
	lines := func(n int, f func(i int) string) string {
		var b strings.Builder
		for i := 0; i < n; i++ {
			b.WriteString(f(i))
		}
		return b.String()
	}
	return []c16ScaleFam{
		{"paren", func(n int) string { return H + "let f (a:int) =\n  " + rep("(", n) + "a" + rep(")", n) + "\n" }, []int{1000, 10000, 100000}, []int{40000}},
		{"parentype", func(n int) string { return H + "let f (a:" + rep("(", n) + "int" + rep(")", n) + ") =\n  1\n" }, []int{1000, 10000, 100000}, []int{40000}},
		{"slicetype", func(n int) string { return H + "let f (a:" + rep("[]", n) + "int) =\n  1\n" }, []int{1000, 10000, 1000000}, []int{100000}},
		{"slice-nest", func(n int) string { return H + "let f (a:int) =\n  " + rep("[", n) + "a" + rep("]", n) + "\n" }, []int{100, 500}, []int{1500}},
		{"binop-paren", func(n int) string { return H + "let f (a:int) =\n  a" + rep(" + (a", n) + rep(")", n) + "\n" }, []int{1000, 10000}, []int{40000}},
		{"app-nest", func(n int) string {
			return H + "let g (a:int) =\n  a\n\nlet f (a:int) =\n  " + rep("g (", n) + "a" + rep(")", n) + "\n"
		}, []int{1000, 10000}, []int{40000}},
		{"tuple-nest", func(n int) string { return H + "let f (a:int) =\n  " + rep("(1, ", n) + "a" + rep(")", n) + "\n" }, []int{300, 2000}, []int{10000}},
		{"inline-if", func(n int) string {
			return H + "let f (a:bool) =\n  " + rep("if a then ", n) + "1" + rep(" else 2", n) + "\n"
		}, []int{100, 1000}, []int{5000}},
		{"lambda-nest", func(n int) string { return H + "let f (a:int) =\n  " + rep("fun (x:int) -> ", n) + "a\n" }, []int{50, 300}, []int{1000}},
		{"not-chain", func(n int) string { return H + "let f (a:bool) =\n  " + rep("not ", n) + "a\n" }, []int{1000, 10000}, []int{40000}},
		{"functype", func(n int) string { return H + "let f (a:" + rep("int->", n) + "int) =\n  1\n" }, []int{1000, 10000}, []int{40000}},
		{"tupletype", func(n int) string { return H + "let f (a:" + rep("int*", n) + "int) =\n  1\n" }, []int{1000, 10000, 100000}, nil},
		{"generic-args", func(n int) string { return H + "let f (a:int) =\n  slice.New<" + rep("[]", n) + "int> ()\n" }, []int{1000, 10000}, []int{100000}},
		{"chain-plus", func(n int) string { return H + "let f (a:int) =\n  a" + rep(" + a", n) + "\n" }, []int{1000, 10000}, []int{40000}},
		{"chain-and", func(n int) string { return H + "let f (a:bool) =\n  a" + rep(" && a", n) + "\n" }, []int{1000, 10000}, []int{40000}},
		{"chain-pipe", func(n int) string { return H + "let g (a:int) =\n  a\n\nlet f (a:int) =\n  a" + rep(" |> g", n) + "\n" }, []int{30, 1000, 100000}, nil},
		{"app-args", func(n int) string { return H + "let f (a:int) =\n  frt.Println" + rep(" a", n) + "\n" }, []int{100, 3000}, []int{30000}},
		{"stmts", func(n int) string { return H + "let f (a:int) =\n" + rep("  frt.Println \"x\"\n", n) + "  a\n" }, []int{1000, 10000}, []int{100000}},
		{"lets", func(n int) string {
			return H + "let f (a:int) =\n" + lines(n, func(i int) string { return fmt.Sprintf("  let v%d = a\n", i) }) + "  a\n"
		}, []int{1000, 10000}, []int{100000}},
		{"defs", func(n int) string {
			return H + lines(n, func(i int) string { return fmt.Sprintf("let f%d (a:int) =\n  a\n\n", i) })
		}, []int{1000, 10000}, []int{100000}},
		{"slice-elems", func(n int) string { return H + "let f (a:int) =\n  [a" + rep("; a", n) + "]\n" }, []int{1000, 10000, 100000}, nil},
		{"union-cases", func(n int) string {
			return H + "type U =\n" + lines(n, func(i int) string { return fmt.Sprintf("| C%d of int\n", i) }) + "\nlet f (u:U) =\n  match u with\n" + lines(n, func(i int) string { return fmt.Sprintf("  | C%d x -> x\n", i) })
		}, []int{100, 500}, []int{2000}},
		{"record-fields", func(n int) string {
			return H + "type R = {F0: int" + lines(n, func(i int) string { return fmt.Sprintf("; F%d: int", i+1) }) + "}\n\nlet f (r:R) =\n  r.F0\n"
		}, []int{1000, 10000}, []int{40000}},
		{"elif-chain", func(n int) string {
			return H + "let f (a:int) =\n  if a = 0 then\n    0\n" + lines(n, func(i int) string { return fmt.Sprintf("  elif a = %d then\n    %d\n", i+1, i+1) }) + "  else\n    1\n"
		}, []int{10, 1000}, []int{100000}},
		{"nested-match", func(n int) string {
			return H + "type U =\n| A of U\n| B\n\nlet f (u:U) =\n" + lines(n, func(i int) string {
				in := rep(" ", 2+2*i)
				return in + "match u with\n" + in + "| B -> 0\n" + in + "| A u ->\n"
			}) + rep(" ", 2+2*n) + "1\n"
		}, []int{30, 300}, []int{1000}},
		{"long-string", func(n int) string { return H + "let f (a:int) =\n  \"" + rep("x", n) + "\"\n" }, []int{1000, 1000000}, nil},
		{"long-identifier", func(n int) string { return H + "let f (a:int) =\n  " + rep("x", n) + "\n" }, []int{1000, 1000000}, nil},
		{"long-comment", func(n int) string { return H + "/*" + rep("x", n) + "*/\nlet f (a:int) =\n  a\n" }, []int{1000, 1000000}, nil},
		{"line-comments", func(n int) string { return H + rep("// c\n", n) + "let f (a:int) =\n  a\n" }, []int{1000, 100000}, nil},
		{"blank-lines", func(n int) string { return H + rep("\n", n) + "let f (a:int) =\n  a\n" }, []int{1000, 1000000}, nil},
		{"trailing-spaces", func(n int) string { return H + "let f (a:int) =\n  a" + rep(" ", n) + "\n" }, []int{1000, 1000000}, nil},
		{"long-line-comment-first", func(n int) string {
			return "package main\n\n//" + rep("x", n) + "\nimport frt\n\nlet f (a:int) =\n  a\n"
		}, []int{1000, 70000, 1000000}, nil},
		{"long-line-data-table", func(n int) string { return H + "let table = [0" + rep("; 1", n) + "]\n\nlet f (a:int) =\n  a\n" }, []int{1000, 30000}, []int{300000}},
		{"long-line-block-comment-first", func(n int) string {
			return "package main\n\n/*" + rep("x", n) + "*/\nimport frt\n\nlet f (a:int) =\n  a\n"
		}, []int{70000, 1000000}, nil},
		{"sinterp-holes", func(n int) string { return H + "let f (a:int) =\n  $\"" + rep("{a}", n) + "\"\n" }, []int{1000, 100000}, nil},
	}
}

func c16ScaleRuns(tier string) []*c16Exec {
	var out []*c16Exec
	for _, f := range c16ScaleFamilies() {
		sizes := append([]int{}, f.quick...)
		if tier == "thorough" {
			sizes = append(sizes, f.thor...)
		}
		for _, n := range sizes {
			// a last definition after the scaled construct: on exit 0 its translation must be in the output
			out = append(out, &c16Exec{id: fmt.Sprintf("scale:%s@%d", f.name, n), class: "size-scaled", files: map[string]string{"x.fo": f.mk(n) + "\nlet zzLast () =\n  1\n"}, args: []string{"x.fo"},
				heavy: true, scale: true, sentinel: "func zzLast(", desc: fmt.Sprintf("size-scaled input: %s x %d", f.name, n)})
		}
	}
	return out
}

// c16FaultRuns enumerates syscall faults on the output path for a few programs.
func c16FaultRuns(env *scratch.Env, fc string, tier string) []*c16Exec {
	var out []*c16Exec
	progs := map[string]string{
		"small": "package main\n\nlet f (a:int) =\n  a + 1\n",
	}
	if b, err := os.ReadFile(filepath.Join(env.Repo, "fc", "tokenizer.fo")); err == nil {
		progs["tokenizer"] = string(b) // several KiB of output
	}
	if tier == "thorough" {
		if b, err := os.ReadFile(filepath.Join(core.VerifRoot(), "corpus", "seeds", "s_union.fo")); err == nil {
			progs["s_union"] = string(b)
		}
	}
	errs := []string{"ENOSPC", "EIO", "EACCES", "EDQUOT"}
	if tier == "thorough" {
		errs = append(errs, "EROFS", "EFBIG", "EINTR", "ENOMEM")
	}
	names := make([]string, 0, len(progs))
	for k := range progs {
		names = append(names, k)
	}
	sort.Strings(names)
	for _, pn := range names {
		src := progs[pn]
		for _, sc := range []string{"openat", "write", "close"} {
			for _, en := range errs {
				for _, w := range []string{"1"} {
					e := &c16Exec{class: "output-fault", files: map[string]string{"x.fo": src}, args: []string{"x.fo"},
						inject: fmt.Sprintf("%s:error=%s:when=%s", sc, en, w), injPath: "gen_x.go", faultOut: true}
					e.id = fmt.Sprintf("fault:%s:%s:%s:when=%s", pn, sc, en, w)
					e.desc = fmt.Sprintf("%s fails with %s (occurrence %s) while writing the output of %s", sc, en, w, pn)
					out = append(out, e)
				}
			}
		}
	}
	// output present beforehand: a stale gen file longer / shorter than the new output must be
	// replaced completely; a destination that accepts the open but not the write (/dev/full)
	for _, pn := range names {
		src := progs[pn]
		stale := map[string]string{
			"longer":      strings.Repeat("// stale line of an earlier, longer output\n", len(src)/8+40),
			"shorter":     "// stale\n",
			"same-prefix": "package main\n\n" + strings.Repeat("// stale tail\n", len(src)/8+40),
		}
		for _, k := range []string{"longer", "shorter", "same-prefix"} {
			e := &c16Exec{class: "stale-output", files: map[string]string{"x.fo": src}, args: []string{"x.fo"}, pre: map[string]string{"gen_x.go": stale[k]}}
			e.id = "stale-output:" + pn + ":" + k
			e.desc = "a " + k + " gen_x.go exists before translating " + pn
			out = append(out, e)
		}
		// what an interrupted or earlier run of the same translation leaves behind: the output cut at
		// 0, 1, every multiple of 4096 and one byte before its end, the output itself, the output
		// followed by a stale tail (the cut positions are filled in from the fault-free run)
		for _, k := range []string{"prefix:0", "prefix:1", "prefix:4096", "prefix:8192", "prefix:12288", "prefix:last-block", "prefix:len-1", "same", "same+tail"} {
			e := &c16Exec{class: "stale-output", files: map[string]string{"x.fo": src}, args: []string{"x.fo"}, preOf: k}
			e.id = "stale-output:" + pn + ":" + k
			e.desc = "gen_x.go holds [" + k + "] of the complete output before translating " + pn
			out = append(out, e)
		}
		e := &c16Exec{class: "output-fault", files: map[string]string{"x.fo": src}, args: []string{"x.fo"}, symlinks: map[string]string{"gen_x.go": "/dev/full"}, faultOut: true, devFull: true}
		e.id = "fault:" + pn + ":dev-full"
		e.desc = "gen_x.go is a symbolic link to /dev/full (open succeeds, every write fails with ENOSPC) while translating " + pn
		out = append(out, e)
	}
	return out
}

func runC16(r *core.Run, tier string) {
	env, err := scratch.New("C16")
	if err != nil {
		r.Inconclusive("scratch: " + err.Error())
		return
	}
	defer env.Close()
	fc, err := env.FC()
	if err != nil {
		r.Inconclusive("fc does not build: " + err.Error())
		return
	}
	const cpuBudget = 10
	r.Rule("a case is one execution of the rebuilt fc binary in a clean directory under RLIMIT_CPU=10 s (normal cost ~10 ms): mutants of ~35 seed programs (truncation at every byte offset, deletion/duplication/swap/replacement of every token, indentation damage per line, dangling comment/string/bracket/keyword tails), random byte strings, a corpus of ill-typed and self-referential definitions, chains of 12 and 40 named types each mentioning the previous one twice (records, unions, mixed, generic), argument-list faults, strace-injected errors on each openat/write/close of the output path, an output path that is a link to /dev/full, stale gen files present beforehand (longer / shorter / sharing the first line; the complete output cut at 0, 1, every multiple of 4096, its last block boundary and one byte before its end; the output itself; the output plus a stale tail), and size-scaled inputs (one construct nested or repeated 10^2..10^6 times: brackets, slice / function / tuple types, operator chains, statements, definitions, cases, fields, literals, comments; own CPU budget of 300 s, exceeding it is inconclusive); judged by: terminates within the CPU budget, no Go runtime fatal error or signal, exit 0 => every requested gen file present (and byte-equal to the fault-free output in fault runs), exit != 0 => diagnostic printed and nothing written for the offending file; non-trivial = the input differs from every seed (all mutants) ; distinct by class + content hash")
	r.Assume("termination is decided as CPU time <= 10 s on inputs <= 64 KiB (three orders of magnitude above normal cost); the wall-clock watchdog only yields 'inconclusive'", "after an injected failure of the output write itself a partial gen file may remain; exit status and diagnostic are still required", "strace -P restricts injection to syscalls on the output path")
	rng := core.NewRand(r.SeedV, "c16")
	work := c16Workload(env, tier, rng)
	// debugging aid (never set by the registered commands): keep only the mutant classes with one of
	// the given prefixes, e.g. VERIF_C16_CLASSES=line-ending,byte-insert
	if only := os.Getenv("VERIF_C16_CLASSES"); only != "" {
		var kept []*c16Exec
		for _, e := range work {
			for _, pre := range strings.Split(only, ",") {
				if strings.HasPrefix(e.class, pre) {
					kept = append(kept, e)
					break
				}
			}
		}
		work = kept
		r.Assume("PARTIAL RUN: VERIF_C16_CLASSES=" + only + " restricts the mutant classes (debugging aid)")
	}
	faults := c16FaultRuns(env, fc, tier)
	// fault-free baselines for the fault runs
	for _, f := range faults {
		o := c16Run(fc, env.PkgAll(), env.Dir("c16/base-"+core.Hash(f.id)), &c16Exec{files: f.files, args: f.args}, cpuBudget)
		f.baseline = o.gen
		if full, ok := o.gen["gen_x.go"]; ok && f.preOf != "" {
			n := -1
			switch f.preOf {
			case "same":
				f.pre = map[string]string{"gen_x.go": full}
			case "same+tail":
				f.pre = map[string]string{"gen_x.go": full + strings.Repeat("// stale tail\n", 300)}
			case "prefix:last-block":
				n = (len(full) - 1) / 4096 * 4096
			case "prefix:len-1":
				n = len(full) - 1
			default:
				fmt.Sscanf(f.preOf, "prefix:%d", &n)
			}
			if n >= 0 && n < len(full) {
				f.pre = map[string]string{"gen_x.go": full[:n]}
			}
			if f.pre != nil {
				r.Count("stale_outputs_derived_from_the_complete_output", 1)
			}
		}
	}
	all := append(work, faults...)
	all = append(all, c16ScaleRuns(tier)...)
	const scaleBudget = 300 // CPU seconds; the unchanged tree needs at most a few seconds per size-scaled input (quick tier)
	obs := make([]*c16Obs, len(all))
	base := env.Dir("c16")
	var hangMu sync.Mutex
	hangs := 0
	sem := make(chan struct{}, 3)
	scratch.Parallel(len(all), 16, func(i int) {
		e := all[i]
		if e.heavy {
			sem <- struct{}{}
			defer func() { <-sem }()
		}
		d := filepath.Join(base, fmt.Sprintf("w%d", i%64), fmt.Sprintf("e%d", i))
		hangMu.Lock()
		budget := cpuBudget
		if hangs > 24 {
			budget = 3 // many hangs already seen: keep the run bounded (still ~300x the normal cost)
		}
		hangMu.Unlock()
		if e.scale {
			budget = scaleBudget
		}
		obs[i] = c16Run(fc, env.PkgAll(), d, e, budget)
		replay := false
		if obs[i].cpuOut && !e.scale {
			hangMu.Lock()
			hangs++
			replay = hangs <= 2
			hangMu.Unlock()
		}
		if replay {
			// replay the first hangs with a 10x budget before believing them
			os.RemoveAll(d)
			o2 := c16Run(fc, env.PkgAll(), d, e, cpuBudget*10)
			if !o2.cpuOut {
				obs[i] = o2
				obs[i].stderr += "\n[verif] needed more than the 10 s budget but finished within 100 s"
			}
		}
		os.RemoveAll(d)
		// keep memory bounded: an execution that is judged fine keeps only what the evidence needs
		if cl, _ := c16Judge(e, obs[i]); cl == "" {
			o := obs[i]
			o.stdout, o.stderr, o.straceLog = tail(o.stdout, 300), tail(o.stderr, 300), keepInjected(o.straceLog)
			names := map[string]string{}
			for n := range o.gen {
				names[n] = ""
			}
			o.gen = names
			o.judgedFine = true
			if len(e.files["x.fo"]) > 1<<14 {
				e.files = map[string]string{"x.fo": tail(e.files["x.fo"], 200)}
			}
		}
	})
	classes := map[string]int64{}
	scaleSeen := map[string]string{}
	outcomes := map[string]int64{}
	injected := 0
	var notInjected []string
	for i, e := range all {
		o := obs[i]
		r.Eval(e.id, true)
		classes[e.class]++
		switch {
		case o.exit == 0:
			outcomes["exit0"]++
		case o.signal != "":
			outcomes["signal"]++
		default:
			outcomes[fmt.Sprintf("exit%d", o.exit)]++
		}
		if e.inject != "" {
			if strings.Contains(o.straceLog, "(INJECTED)") {
				injected++
			} else {
				r.Count("fault_runs_where_the_syscall_never_occurred", 1)
				notInjected = append(notInjected, e.id)
			}
		}
		class, what := "", ""
		if !o.judgedFine {
			class, what = c16Judge(e, o)
		}
		if e.scale {
			oc := fmt.Sprintf("exit=%d cpu_ms=%d", o.exit, o.cpuMs)
			if class != "" {
				oc += " " + class
			}
			scaleSeen[strings.TrimPrefix(e.id, "scale:")] = oc
		}
		if class == "" {
			continue
		}
		if class == "inconclusive" {
			r.Inconclusive(e.desc + ": " + what)
			continue
		}
		files := map[string]string{"observed.txt": fmt.Sprintf("class=%s\nargs=%v\ninject=%s\nexit=%d signal=%s cpu_ms=%d\n--- stdout\n%s\n--- stderr\n%s\n--- gen files: %v\n--- strace\n%s\n",
			e.class, e.args, e.inject, o.exit, o.signal, o.cpuMs, tail(o.stdout, 2000), tail(o.stderr, 3000), keysOf(o.gen), tail(o.straceLog, 3000))}
		for n, c := range e.files {
			if e.scale && len(c) > 1<<16 {
				files["input/"+n+".head"] = c[:2048] + "\n...\n[" + fmt.Sprint(len(c)) + " bytes; regenerate with: vrun check C16 (case " + e.id + ")]\n..." + c[len(c)-1024:]
				continue
			}
			files["input/"+n] = c
		}
		r.Violate(class+":"+e.id, fmt.Sprintf("[%s] %s: %s", e.desc, class, what), files)
	}
	r.Set("executions_by_class", classes)
	r.Set("size_scaled_inputs", scaleSeen)
	r.Set("outcomes", outcomes)
	r.Set("fault_runs", len(faults))
	r.Set("fault_runs_with_syscall_injected", injected)
	r.Set("fault_runs_not_reached", notInjected)
	r.Set("seed_programs", len(c16Seeds(env)))
	if len(faults) > 0 && injected == 0 {
		r.Inconclusive("strace injected no fault at all (strace unavailable?)")
	}
	for _, i := range []int{10, len(work) / 2, len(work) - 30, len(all) - 1} {
		if i >= 0 && i < len(all) {
			e, o := all[i], obs[i]
			in := ""
			if c, ok := e.files["x.fo"]; ok {
				in = oneLineN(tail(c, 80), 100)
			}
			r.Sample(map[string]any{"case": e.desc, "input_tail": in, "inject": e.inject, "exit": o.exit, "diagnostic": oneLineN(strings.ReplaceAll(o.stdout, "transpile: ", ""), 140), "gen_files": keysOf(o.gen)})
		}
	}
}

func keysOf(m map[string]string) []string {
	var out []string
	for k := range m {
		out = append(out, k)
	}
	sort.Strings(out)
	return out
}
