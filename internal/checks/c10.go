package checks

import (
	"fmt"
	"os"
	"path/filepath"

	"verif/internal/core"
	"verif/internal/fcx"
	"verif/internal/harness"
	"verif/internal/scratch"
)

func init() { register("C10", "exploration", runC10) }

func runC10(r *core.Run, tier string) {
	env, err := scratch.New("C10")
	if err != nil {
		r.Inconclusive("scratch: " + err.Error())
		return
	}
	defer env.Close()
	fc, err := env.FC()
	if err != nil {
		r.Inconclusive("fc does not build: " + err.Error())
		return
	}
	ws, err := harness.Materialize(env, "eqh")
	if err != nil {
		r.Inconclusive("materialize: " + err.Error())
		return
	}
	r.Rule("a case is one ordered pair (a, b) of values of one Folang type: int, string, bool, slices, slices of slices, records with upper-case / lower-case / mixed field names, nested records, 2- and 3-tuples, unions with and without payload, slices of unions, generic record and union instances; the Go types are the ones the rebuilt fc emits for a Folang declaration file, each value is materialised along several library paths (literal, slice.New+PushLast, Filter / Take / Skip / Tail / PopLast / Map / Append results, nil vs empty, constructor function vs struct literal) and carries a canonical form; frt.OpEqual / OpNotEqual and the emitted Folang functions using = / <> are called under recover, in one process for all families and once more per family in a fresh process (first comparison of that process); checked: no panic, result == canonical-form equality, reflexive, symmetric, transitive (all or a strided sample of triples), <> is the negation; non-trivial = the two operands were built along different paths (or a reflexive pair); distinct by construction (each ordered pair visited once)")
	r.Assume("canonical forms are the reference structural equality", "function values and floats are outside the statement")
	// the types are emitted by the compiler under test
	src, _ := os.ReadFile(filepath.Join(ws, "eq_types.fo"))
	out := fcx.Transpile(fc, env.PkgAll(), filepath.Join(ws, "eqh"), map[string]string{"eq_types.fo": string(src)}, []string{"eq_types.fo"}, nil, 60)
	if out.Res.Exit != 0 || out.Gen["gen_eq_types.go"] == "" {
		r.Inconclusive("fc rejects the declaration file of the equality harness: " + oneLineN(out.Diag(), 300))
		return
	}
	os.Remove(filepath.Join(ws, "eqh", "eq_types.fo"))
	bin := filepath.Join(env.Bin, "eqh")
	if err := harness.Build(env, ws, bin); err != nil {
		r.Inconclusive("equality harness does not build against the emitted types (representation changed? see C03): " + oneLineN(err.Error(), 400))
		return
	}
	depth := 2
	if tier == "thorough" {
		depth = 4
	}
	rep, _ := harness.Run(r, bin, []string{"-depth", fmt.Sprint(depth)}, 1800, "eqh")
	foldReport(r, rep)
	if rep.Done {
		if v, _ := rep.Stats["types"].(float64); v < 20 {
			r.Inconclusive("fewer than 20 type families compared")
		}
		// every family once more in a process of its own, as the first comparison that process
		// makes (equality must not depend on what was compared before)
		nFam := 0
		if v, ok := rep.Stats["families"].(float64); ok {
			nFam = int(v)
		}
		reps := make([]*harness.Report, nFam)
		scratch.Parallel(nFam, 8, func(i int) {
			reps[i], _ = harness.Run(r, bin, []string{"-depth", "2", "-only", fmt.Sprint(i)}, 600, fmt.Sprintf("eqh -only %d", i))
		})
		isolated := 0
		for _, ri := range reps {
			if ri != nil && ri.Done {
				isolated++
				for k, v := range ri.Stats {
					r.Set(k, v)
				}
				r.EvalN(ri.Evals, ri.Distinct, "case")
			}
		}
		r.Set("families_compared_in_a_process_of_their_own", isolated)
		if isolated < nFam {
			r.Inconclusive("some isolated family run did not finish")
		}
	}
}
