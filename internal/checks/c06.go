package checks

import (
	"fmt"
	"os"
	"path/filepath"
	"strings"

	"verif/internal/core"
	"verif/internal/fcx"
	"verif/internal/fo"
	"verif/internal/scratch"
)

func init() { register("C06", "exploration", runC06) }

func runC06(r *core.Run, tier string) {
	env, err := scratch.New("C06")
	if err != nil {
		r.Inconclusive("scratch: " + err.Error())
		return
	}
	defer env.Close()
	fc, err := env.FC()
	if err != nil {
		r.Inconclusive("fc does not build: " + err.Error())
		return
	}
	nProg, nLay := 80, 12
	if tier == "thorough" {
		nProg, nLay = 800, 40
	}
	r.Rule("a case is one (abstract program, layout) pair: the program is printed with independently drawn layout decisions at every block, statement, arm and operator (indent unit 1..9 spaces or a tab, blank and white-space-only lines, own-line // and /* */ comments at any column incl. multi-line block comments, trailing comments and white space, if on one line or several, let right-hand side and arm body on the same or the next line, line break before every |>, multi-line record definitions, arms indented or not, and nine ways of ending the file: with or without a final newline, after a comment-only or spaces-only last line, extra blank lines) and transpiled by the rebuilt fc with the root-boundary invariants (hook H2) asserted; the gen file must be byte-identical to the one of the canonical layout; the converse (a dedented line ends its block) is decided by executing paired programs that differ only in the indentation of one statement; non-trivial = the layout differs from the canonical text; distinct by (program, layout text) hash")
	r.Assume("layouts never put a comment before a token on its line (that changes columns)", "the canonical layout's meaning is checked by C01")
	cases, discarded, _ := genCases(r.SeedV, "c06", fo.ProfileC01, nProg, 0)
	_ = discarded
	type job struct {
		prog  int
		lay   int
		src   string
		stats map[string]int
	}
	var jobs []job
	for pi, c := range cases {
		jobs = append(jobs, job{pi, -1, c.src, nil})
		for li := 0; li < nLay; li++ {
			var l *fo.RandLayout
			var src string
			for redraw := 0; redraw < 20; redraw++ {
				l = fo.NewRandLayout(core.NewRand(r.SeedV, fmt.Sprintf("c06/%d/%d/%d", pi, li, redraw)))
				src = fo.Print(c.prog, l)
				if !c06SinterpOffByOne(src) {
					break
				}
				// known finding C06/sinterp-column: a line starting with $" right after a block
				// indented by exactly one more column; exercised by its corpus witness only
				r.Count("layouts_redrawn_to_avoid_known_finding_sinterp_column", 1)
			}
			jobs = append(jobs, job{pi, li, src, l.Stats})
		}
	}
	type res struct {
		exit int
		gen  string
		diag string
		wall bool
	}
	results := make([]res, len(jobs))
	base := env.Dir("c06")
	scratch.Parallel(len(jobs), 16, func(i int) {
		d := filepath.Join(base, fmt.Sprintf("w%d", i%64), fmt.Sprintf("j%d", i))
		out := fcx.Transpile(fc, env.PkgAll(), d, map[string]string{"x.fo": jobs[i].src}, []string{"x.fo"}, []string{"VERIF_FC_ASSERT=1"}, 30)
		results[i] = res{out.Res.Exit, out.Gen["gen_x.go"], out.Diag(), out.Res.WallOut}
		os.RemoveAll(d)
	})
	canon := map[int]res{}
	for i, j := range jobs {
		if j.lay == -1 {
			canon[j.prog] = results[i]
		}
	}
	layoutStats := map[string]int64{}
	for i, j := range jobs {
		if j.lay == -1 {
			continue
		}
		c0 := canon[j.prog]
		rs := results[i]
		key := core.Hash(j.src)
		r.Eval(key, j.src != cases[j.prog].src)
		for k, v := range j.stats {
			layoutStats[k] += int64(v)
		}
		if rs.wall {
			r.Inconclusive("watchdog")
			continue
		}
		files := map[string]string{"canonical.fo": cases[j.prog].src, "layout.fo": j.src, "canonical_gen.go": c0.gen, "layout_gen.go": rs.gen, "diag.txt": rs.diag}
		switch {
		case c0.exit != 0 && rs.exit == 0:
			// the canonical layout is rejected but this layout of the same program is accepted
			r.Violate("layout-acceptance-differs:"+key, "a re-layout is accepted while the canonical layout of the same program is rejected: "+oneLineN(c0.diag, 200), files)
		case c0.exit != 0:
			// every layout seen so far is rejected like the canonical one: C01's business; not judged here
			r.Count("canonical_rejected_not_judged", 1)
		case rs.exit == 97:
			r.Violate("h2-invariant:"+key, "root-boundary invariant violated under a re-layout: "+oneLineN(rs.diag, 200), files)
		case rs.exit != 0:
			r.Violate("layout-rejected:"+key, "a block-structure-preserving re-layout is rejected: "+oneLineN(rs.diag, 200), files)
		case rs.gen != c0.gen:
			files["diff.txt"] = udiff([]byte(c0.gen), []byte(rs.gen), "canonical", "layout")
			r.Violate("layout-changes-output:"+key, "a block-structure-preserving re-layout changes the emitted Go", files)
		}
	}
	c06Converse(r, env, fc, tier)
	r.Set("programs", len(cases))
	r.Set("layouts_per_program", nLay)
	r.Set("layout_decisions_taken", layoutStats)
	for _, must := range []string{"indent-tab", "own-line-comment", "own-line-multiline-comment", "trailing-comment", "blank-line", "choice:pipe-break", "choice:let-rhs-nextline", "choice:if-oneline", "choice:arm-body-nextline", "choice:recdef-multiline"} {
		if layoutStats[must] == 0 {
			r.Inconclusive("layout decision never taken: " + must)
		}
	}
	if len(jobs) > 2 {
		r.Sample(map[string]any{"layout_of_program_0": strings.Split(jobs[1].src, "\n")})
	}
}

// c06SinterpOffByOne recognises the pattern of the known finding "the column of a token
// starting with $ is measured one too far": a line whose first token is an interpolated
// string, preceded (ignoring deeper, blank and comment lines) by a line indented by exactly
// one more column.
func c06SinterpOffByOne(src string) bool {
	lines := strings.Split(src, "\n")
	ind := func(l string) int { return len(l) - len(strings.TrimLeft(l, " \t")) }
	// lines that begin inside a several-line raw string are text, not layout
	inside := make([]bool, len(lines))
	{
		// a small scanner: comments and "..." strings may hold a backtick that opens nothing
		const (
			code = iota
			lineComment
			blockComment
			str
			raw
		)
		st, ln := code, 0
		for i := 0; i < len(src); i++ {
			c := src[i]
			if c == '\n' {
				ln++
				if st == lineComment {
					st = code
				}
				if ln < len(inside) {
					inside[ln] = st == raw
				}
				continue
			}
			switch st {
			case code:
				switch {
				case c == '/' && i+1 < len(src) && src[i+1] == '/':
					st = lineComment
				case c == '/' && i+1 < len(src) && src[i+1] == '*':
					st = blockComment
					i++
				case c == '"':
					st = str
				case c == '`':
					st = raw
				}
			case blockComment:
				if c == '*' && i+1 < len(src) && src[i+1] == '/' {
					st = code
					i++
				}
			case str:
				if c == '\\' {
					i++
				} else if c == '"' {
					st = code
				}
			case raw:
				if c == '`' {
					st = code
				}
			}
		}
	}
	for i, l := range lines {
		t := strings.TrimLeft(l, " \t")
		if !strings.HasPrefix(t, "$") || inside[i] {
			continue
		}
		c := ind(l)
		for j := i - 1; j >= 0; j-- {
			tj := strings.TrimSpace(lines[j])
			if inside[j] || tj == "" || strings.HasPrefix(tj, "//") || strings.HasPrefix(tj, "/*") || strings.HasPrefix(tj, "line ") || strings.HasSuffix(tj, "*/") && !strings.Contains(tj, "/*") {
				continue
			}
			k := ind(lines[j])
			if k == c+1 {
				return true
			}
			if k <= c {
				break
			}
		}
	}
	return false
}

// c06Converse: a line indented less than its block ends that block. Paired programs
// that differ only in the indentation of one statement are executed; each must
// print what the reference evaluator predicts for its own block structure.
func c06Converse(r *core.Run, env *scratch.Env, fc string, tier string) {
	n := 40
	if tier == "thorough" {
		n = 400
	}
	rng := core.NewRand(r.SeedV, "c06conv")
	var cases []*progCase
	mk := func(name string, p *fo.Program) {
		out, err := fo.Run(p, "Run")
		if err != nil {
			return
		}
		src := fo.Print(p, nil)
		cases = append(cases, &progCase{name: name, prog: p, src: src, expect: out, key: core.Hash(src)})
	}
	tr := func(tag string) fo.Stmt {
		return &fo.ExprStmt{E: &fo.Call{Fn: &fo.Var{Name: "trace"}, Args: []fo.Expr{&fo.StrLit{V: tag}}}}
	}
	trE := func(tag string) fo.Expr {
		return &fo.Call{Fn: &fo.Var{Name: "trace"}, Args: []fo.Expr{&fo.StrLit{V: tag}}}
	}
	for i := 0; i < n; i++ {
		cond := rng.Bool()
		kind := rng.Intn(4)
		if kind == 3 {
			kind = 5 // nested match followed by the outer match's default arm
		}
		// (the dangling-else shapes, kinds 3 and 4, are a known finding: exercised by the corpus witnesses only)
		for variant := 0; variant < 2; variant++ {
			name := fmt.Sprintf("p%d", 2*i+variant)
			p := &fo.Program{Pkg: name, Imports: []string{"frt"}}
			p.Decls = append(p.Decls, &fo.FuncDef{Name: "trace", Params: []fo.Param{{Name: "tag", T: fo.TString}}, Ret: fo.TUnit,
				Body: fo.ExprBlock(&fo.Call{Fn: &fo.Var{Name: "frt.Printf1"}, Args: []fo.Expr{&fo.StrLit{V: "E %s\n"}, &fo.Var{Name: "tag"}}})})
			u := &fo.UnionDef{Name: "U", Cases: []fo.UCase{{Name: "Ka"}, {Name: "Kb"}}}
			p.Decls = append(p.Decls, u)
			var body *fo.Block
			switch kind {
			case 0: // if-only: second statement inside vs after the branch
				if variant == 0 {
					body = &fo.Block{Stmts: []fo.Stmt{&fo.ExprStmt{E: &fo.If{Cond: &fo.Var{Name: "c"}, Then: &fo.Block{Stmts: []fo.Stmt{tr("in1")}, Result: trE("moved")}}}}, Result: trE("last")}
				} else {
					body = &fo.Block{Stmts: []fo.Stmt{&fo.ExprStmt{E: &fo.If{Cond: &fo.Var{Name: "c"}, Then: &fo.Block{Result: trE("in1")}}}, tr("moved")}, Result: trE("last")}
				}
			case 1: // else branch
				if variant == 0 {
					body = &fo.Block{Stmts: []fo.Stmt{&fo.ExprStmt{E: &fo.If{Cond: &fo.Var{Name: "c"}, Then: &fo.Block{Result: trE("then")}, Else: &fo.Block{Stmts: []fo.Stmt{tr("else")}, Result: trE("moved")}}}}, Result: trE("last")}
				} else {
					body = &fo.Block{Stmts: []fo.Stmt{&fo.ExprStmt{E: &fo.If{Cond: &fo.Var{Name: "c"}, Then: &fo.Block{Result: trE("then")}, Else: &fo.Block{Result: trE("else")}}}, tr("moved")}, Result: trE("last")}
				}
			case 3: // dangling else: an if without else nested as the last statement of a then branch;
				// the less indented else belongs to the OUTER if (variant 0) - variant 1 gives the inner if its own else
				inner := &fo.If{Cond: &fo.Var{Name: "d"}, Then: &fo.Block{Result: trE("inner-then")}}
				if variant == 0 {
					body = &fo.Block{Stmts: []fo.Stmt{&fo.ExprStmt{E: &fo.If{Cond: &fo.Var{Name: "c"}, Then: &fo.Block{Stmts: []fo.Stmt{tr("outer-then")}, Result: inner}, Else: &fo.Block{Result: trE("the-else")}}}}, Result: trE("last")}
				} else {
					inner.Else = &fo.Block{Result: trE("the-else")}
					body = &fo.Block{Stmts: []fo.Stmt{&fo.ExprStmt{E: &fo.If{Cond: &fo.Var{Name: "c"}, Then: &fo.Block{Stmts: []fo.Stmt{tr("outer-then")}, Result: inner}}}}, Result: trE("last")}
				}
			case 4: // the same with an elif chain hanging off the outer if
				inner := &fo.If{Cond: &fo.Var{Name: "d"}, Then: &fo.Block{Result: trE("inner-then")}}
				if variant == 0 {
					body = &fo.Block{Stmts: []fo.Stmt{&fo.ExprStmt{E: &fo.If{Cond: &fo.Var{Name: "c"}, Then: &fo.Block{Result: inner},
						Elifs: []fo.Elif{{Cond: &fo.Var{Name: "d"}, Body: &fo.Block{Result: trE("elif")}}}, Else: &fo.Block{Result: trE("the-else")}}}}, Result: trE("last")}
				} else {
					inner.Elifs = []fo.Elif{{Cond: &fo.Var{Name: "d"}, Body: &fo.Block{Result: trE("elif")}}}
					inner.Else = &fo.Block{Result: trE("the-else")}
					body = &fo.Block{Stmts: []fo.Stmt{&fo.ExprStmt{E: &fo.If{Cond: &fo.Var{Name: "c"}, Then: &fo.Block{Result: inner}}}}, Result: trE("last")}
				}
			case 5: // a default-less match nested as the last expression of an arm, followed by the
				// OUTER match's `| _ ->` at the outer arms' column (variant 0); variant 1 gives the
				// default arm to the inner match instead (one level deeper)
				u2 := &fo.UnionDef{Name: "V", Cases: []fo.UCase{{Name: "Va"}, {Name: "Vb"}, {Name: "Vc"}}}
				p.Decls = append(p.Decls, u2)
				outerT := &fo.Ctor{Union: u2, Case: map[bool]int{true: 0, false: 2}[cond]}
				innerT := &fo.Ctor{Union: u, Case: map[bool]int{true: 0, false: 1}[cond]}
				if variant == 0 {
					inner := &fo.MatchU{Target: &fo.Var{Name: "k"}, Union: u, Arms: []fo.UArm{{Case: 0, Body: &fo.Block{Result: trE("ia")}}, {Case: 1, Body: &fo.Block{Result: trE("ib")}}}}
					outer := &fo.MatchU{Target: &fo.Var{Name: "w"}, Union: u2, Arms: []fo.UArm{{Case: 1, Body: &fo.Block{Result: trE("ob")}}, {Case: 0, Body: &fo.Block{Result: inner}}}, Default: &fo.Block{Result: trE("the-default")}}
					body = &fo.Block{Stmts: []fo.Stmt{&fo.Let{Name: "k", E: innerT}, &fo.Let{Name: "w", E: outerT}, &fo.ExprStmt{E: outer}}, Result: trE("last")}
				} else {
					inner := &fo.MatchU{Target: &fo.Var{Name: "k"}, Union: u, Arms: []fo.UArm{{Case: 0, Body: &fo.Block{Result: trE("ia")}}}, Default: &fo.Block{Result: trE("the-default")}}
					outer := &fo.MatchU{Target: &fo.Var{Name: "w"}, Union: u2, Arms: []fo.UArm{{Case: 1, Body: &fo.Block{Result: trE("ob")}}, {Case: 2, Body: &fo.Block{Result: trE("oc")}}, {Case: 0, Body: &fo.Block{Result: inner}}}}
					body = &fo.Block{Stmts: []fo.Stmt{&fo.Let{Name: "k", E: innerT}, &fo.Let{Name: "w", E: outerT}, &fo.ExprStmt{E: outer}}, Result: trE("last")}
				}
			default: // last arm of a match used as a statement
				target := &fo.Ctor{Union: u, Case: 0}
				if !cond {
					target = &fo.Ctor{Union: u, Case: 1}
				}
				if variant == 0 {
					body = &fo.Block{Stmts: []fo.Stmt{&fo.Let{Name: "k", E: target}, &fo.ExprStmt{E: &fo.MatchU{Target: &fo.Var{Name: "k"}, Union: u, Arms: []fo.UArm{{Case: 0, Body: &fo.Block{Result: trE("a")}}, {Case: 1, Body: &fo.Block{Stmts: []fo.Stmt{tr("b")}, Result: trE("moved")}}}}}}, Result: trE("last")}
				} else {
					body = &fo.Block{Stmts: []fo.Stmt{&fo.Let{Name: "k", E: target}, &fo.ExprStmt{E: &fo.MatchU{Target: &fo.Var{Name: "k"}, Union: u, Arms: []fo.UArm{{Case: 0, Body: &fo.Block{Result: trE("a")}}, {Case: 1, Body: &fo.Block{Result: trE("b")}}}}}, tr("moved")}, Result: trE("last")}
				}
			}
			p.Decls = append(p.Decls, &fo.FuncDef{Name: "f", Params: []fo.Param{{Name: "c", T: fo.TBool}, {Name: "d", T: fo.TBool}}, Ret: fo.TUnit, Body: body})
			callF := func(a, b bool) fo.Expr {
				return &fo.Call{Fn: &fo.Var{Name: "f"}, Args: []fo.Expr{&fo.BoolLit{V: a}, &fo.BoolLit{V: b}}}
			}
			p.Decls = append(p.Decls, &fo.FuncDef{Name: "Run", Ret: fo.TUnit, Body: &fo.Block{Stmts: []fo.Stmt{&fo.ExprStmt{E: callF(cond, true)}, &fo.ExprStmt{E: callF(cond, false)}, &fo.ExprStmt{E: callF(!cond, true)}}, Result: callF(!cond, false)}})
			mk(name, p)
		}
	}
	// random layouts of the pairs as well (the block structure of each is fixed by its AST)
	for i, c := range cases {
		if i%2 == 0 {
			for redraw := 0; redraw < 20; redraw++ {
				l := fo.NewRandLayout(core.NewRand(r.SeedV, fmt.Sprintf("c06conv/%d/%d", i, redraw)))
				l.Comments = rng.Bool()
				c.src = fo.Print(c.prog, l)
				if !c06SinterpOffByOne(c.src) {
					break
				}
			}
		}
	}
	// hand-kept witnesses (corpus/c06): nested ifs whose else / elif belongs to the outer if
	corpus := loadCorpus(filepath.Join(core.VerifRoot(), "corpus", "c06"), 900000)
	cases = append(cases, corpus...)
	transpileAll(fc, env.PkgAll(), env, "c06conv", cases)
	for _, s := range runAll(env, "c06convrun", cases, 100) {
		r.Inconclusive("converse execution batch: " + s)
	}
	ok := reportProgCases(r, cases, "dedent-")
	for _, c := range cases {
		r.Eval("conv:"+c.key, true)
	}
	r.Set("dedent_pairs_executed", (len(cases)-len(corpus))/2)
	r.Set("dedent_corpus_programs", len(corpus))
	r.Set("dedent_programs_agreeing_with_reference", ok)
}
