package checks

import (
	"fmt"
	"os"
	"sort"
	"strconv"
	"strings"

	"verif/internal/core"
	"verif/internal/fcx"
	"verif/internal/gobatch"
	"verif/internal/scratch"
)

func init() { register("C11", "exploration", runC11) }

// One literal: the text written in the source between the delimiters and the value
// the four documented rules give it.
type c11Lit struct {
	form   int    // 0 "..", 1 `..`, 2 $"..", 3 $`..`
	src    string // complete literal as written, delimiters included
	want   string
	class  string
	id     string
	status string // "", ok, mismatch, compile, rejected
	got    string
	detail string
}

var c11FormName = []string{`"..."`, "`...`", `$"..."`, "$`...`"}

// holes: variable name -> display form (decimal ints, strings verbatim, Go %v otherwise)
var c11Holes = []struct{ name, display string }{
	{"hi", "42"}, {"hs", "S t"}, {"hb", "true"}, {"hneg", "-7"}, {"hempty", ""}, {"hl", "[1 2 3]"}, {"hr", "{1 x 9}"}, {"ht", "{7 u}"}, {"hr.A", "1"}, {"hr.B", "x"},
	{"h_under", "70"}, {"_hlead", "lead"}, {"h2d", "22"}, {"H_UP", "up"}, {"hr.f_x", "9"}, {"h__", "dd"},
}

const c11Prelude = `
import frt
import strings

type Rc = {A: int; B: string; f_x: int}

let hi = 42
let hs = "S t"
let hb = true
let hneg = 0 - 7
let hempty = ""
let hl = [1; 2; 3]
let hr = {A=1; B="x"; f_x=9}
let h_under = 70
let _hlead = "lead"
let h2d = 22
let H_UP = "up"
let h__ = "dd"
let ht = (7, "u")

let frame (id:string) (s:string) =
  frt.Printf1 "%s" (id + ":" + frt.Sprintf1 "%d" (strings.Length s) + ":" + s + "\n")

`

type c11Piece struct {
	text string // literal characters (value)
	hole int    // index into c11Holes, -1 for text
}

// c11Build writes the pieces in the given form; ok=false if some character cannot be written in that form.
func c11Build(form int, pieces []c11Piece) (src, want string, ok bool) {
	var b, w strings.Builder
	interp := form >= 2
	raw := form == 1 || form == 3
	for _, p := range pieces {
		if p.hole >= 0 {
			if !interp {
				return "", "", false
			}
			b.WriteString("{" + c11Holes[p.hole].name + "}")
			w.WriteString(c11Holes[p.hole].display)
			continue
		}
		for i := 0; i < len(p.text); i++ {
			c := p.text[i]
			switch {
			case raw && c == '`':
				return "", "", false // no way to write a back-tick in a raw literal
			case raw && interp && c == '{':
				return "", "", false // no brace escape in $`...`: an opening brace always starts a hole
			case raw && interp && c == '}':
				b.WriteByte(c) // a closing brace outside a hole is an ordinary character
			case raw:
				b.WriteByte(c)
			case c == '"':
				b.WriteString("\\\"")
			case c == '\\':
				b.WriteString("\\\\")
			case interp && c == '{':
				b.WriteString("\\{")
			case interp && c == '}':
				b.WriteString("\\}")
			default:
				b.WriteByte(c) // includes a raw newline / tab inside "..."
			}
			w.WriteByte(c)
		}
	}
	switch form {
	case 0:
		return `"` + b.String() + `"`, w.String(), true
	case 1:
		return "`" + b.String() + "`", w.String(), true
	case 2:
		return `$"` + b.String() + `"`, w.String(), true
	}
	return "$`" + b.String() + "`", w.String(), true
}

// c11Escaped writes newline / tab through the \n \t escapes ("..." and $"..." only).
func c11Escaped(form int, value string) (src string, ok bool) {
	if form == 1 || form == 3 {
		return "", false
	}
	var b strings.Builder
	for i := 0; i < len(value); i++ {
		switch c := value[i]; c {
		case '\n':
			b.WriteString("\\n")
		case '\t':
			b.WriteString("\\t")
		case '"':
			b.WriteString("\\\"")
		case '\\':
			b.WriteString("\\\\")
		case '{':
			if form == 2 {
				b.WriteString("\\{")
			} else {
				b.WriteByte(c)
			}
		case '}':
			if form == 2 {
				b.WriteString("\\}")
			} else {
				b.WriteByte(c)
			}
		default:
			b.WriteByte(c)
		}
	}
	if form == 0 {
		return `"` + b.String() + `"`, true
	}
	return `$"` + b.String() + `"`, true
}

var c11Multi = []rune{0xa9, 0xe9, 0xfc, 0xdf, 0x3a9, 0x3b1, 0x416, 0x44f, 0x5d0, 0x627, 0x7ff, 0x80, 0xa0, 0xff, 0x100, 0x17f,
	0x800, 0x20ac, 0x2014, 0x2603, 0x3042, 0x30ab, 0x4e2d, 0x65e5, 0x672c, 0x8a9e, 0xac00, 0xd7a3, 0xe000, 0xfeff, 0xfffd, 0xffff,
	0x2028, 0x2029, 0x1e9e, 0x2260, 0x221e, 0x25a0, 0x2764, 0x3000, 0x0e01, 0x0915, 0x10d0, 0x1200, 0x13a0, 0x1780, 0x1100, 0x0b85,
	0x10000, 0x1f600, 0x1f389, 0x1f1ef, 0x10ffff, 0x20000, 0x2f800, 0x1d11e, 0x1f4a9, 0x10348, 0x1f3fb, 0xe0041, 0x1f680, 0x1fae0, 0x16000, 0x1b000}

// c11MultiWide: valid multi-byte scalar values around and between the listed ones, without the
// listed ones themselves, in ascending order (deterministic).
func c11MultiWide(tier string) []rune {
	seen := map[rune]bool{}
	for _, r := range c11Multi {
		seen[r] = true
	}
	var out []rune
	put := func(r rune) {
		if r < 0x80 || r > 0x10ffff || (r >= 0xd800 && r <= 0xdfff) || seen[r] {
			return
		}
		seen[r] = true
		out = append(out, r)
	}
	for _, r := range c11Multi {
		put(r - 1)
		put(r + 1)
		put(r &^ 0x3f)
		put(r | 0x3f)
		put(r ^ 0x3f)
		put(r ^ 0x40)   // same last byte, next-to-last byte differs
		put(r ^ 0x1000) // same two last bytes, the byte before differs
	}
	for r := rune(0x80); r < 0x800; r += 0x40 { // one per 2-byte lead byte
		put(r)
		put(r | 0x3f)
	}
	for r := rune(0x800); r < 0x10000; r += 0x1000 { // one per 3-byte lead byte
		put(r)
		put(r | 0xfff)
		put(r | 0x03f)
		put(r | 0xfc0)
	}
	for r := rune(0x10000); r <= 0x10ffff; r += 0x40000 { // one per 4-byte lead byte
		put(r)
		put(r | 0x3ffff)
		put(r | 0x0003f)
	}
	for r := rune(0xfec0); r <= 0xfeff; r++ { // all of EF BB xx
		put(r)
	}
	if tier == "thorough" {
		for r := rune(0x80); r < 0x10000; r += 13 {
			put(r)
		}
		for r := rune(0x10000); r <= 0x10ffff; r += 997 {
			put(r)
		}
	}
	sort.Slice(out, func(i, j int) bool { return out[i] < out[j] })
	return out
}

func c11Generate(tier string, rng *core.Rand) []*c11Lit {
	var out []*c11Lit
	add := func(class string, form int, src, want string) {
		out = append(out, &c11Lit{form: form, src: src, want: want, class: class, id: fmt.Sprintf("L%d", len(out))})
	}
	addPieces := func(class string, form int, pieces []c11Piece) {
		if src, want, ok := c11Build(form, pieces); ok {
			add(class, form, src, want)
		}
	}
	// 1. every single character, alone and between two letters, in each form
	var chars []string
	for c := 0x20; c <= 0x7e; c++ {
		chars = append(chars, string(rune(c)))
	}
	chars = append(chars, "\n", "\t")
	for _, r := range c11Multi {
		chars = append(chars, string(r))
	}
	for form := 0; form < 4; form++ {
		for _, ch := range chars {
			addPieces("single-char", form, []c11Piece{{ch, -1}})
			addPieces("single-char-between-letters", form, []c11Piece{{"a" + ch + "b", -1}})
			if len(ch) == 1 && (ch[0] < '0' || ch[0] > 'z' || ch == "\\" || ch == "^" || ch == "_" || ch == "`") {
				// every ASCII punctuation character doubled and tripled, alone, between letters and
				// after a hole (a doubled character must stay doubled: }} ,  %% , \"\" , ``...)
				addPieces("doubled-char", form, []c11Piece{{ch + ch, -1}})
				addPieces("doubled-char-between-letters", form, []c11Piece{{"a" + ch + ch + "b", -1}})
				addPieces("tripled-char", form, []c11Piece{{ch + ch + ch, -1}})
				if form >= 2 {
					addPieces("doubled-char-after-hole", form, []c11Piece{{"", 0}, {ch + ch, -1}, {"", 1}})
				}
			}
			if ch == "\n" || ch == "\t" {
				if src, ok := c11Escaped(form, ch); ok {
					add("escape", form, src, ch)
				}
				if src, ok := c11Escaped(form, "a"+ch+"b"); ok {
					add("escape", form, src, "a"+ch+"b")
				}
			}
		}
		addPieces("empty", form, []c11Piece{{"", -1}})
	}
	// 1b. the byte neighbourhood of the multi-byte characters: every character above shares its
	// leading bytes with others (EF BB BF is U+FEFF, EF BB 80 is U+FEC0), so a scanner that decides
	// on a prefix of the encoding is only exposed by a sibling. Siblings of every listed character
	// (last byte 80, BF, +-1, mirrored), one character per lead byte C2..F4 with the smallest and the
	// largest continuation bytes; thorough walks the planes with a fixed stride as well.
	for form := 0; form < 4; form++ {
		for _, r := range c11MultiWide(tier) {
			addPieces("multibyte-neighbourhood", form, []c11Piece{{string(r), -1}})
			addPieces("multibyte-neighbourhood-between-letters", form, []c11Piece{{"a" + string(r) + "b", -1}})
		}
	}
	// 2. the escapes and brace escapes in combination
	for _, v := range []string{"\\\"", "\"\"", "\\\\", "\\n", "a\\tb", "{}", "{a}", "}{", "{{x}}", "%d", "%s%v%%", "100%", "%!", "%", "% d", "\\{", "x\\", "\\", "\"", "tab\there", "nl\nhere", "%{", "}%"} {
		for form := 0; form < 4; form++ {
			addPieces("escapes-and-percent", form, []c11Piece{{v, -1}})
			if src, ok := c11Escaped(form, v); ok {
				add("escapes-and-percent", form, src, v)
			}
		}
	}
	// 3. holes of every type at start, middle, end; adjacent holes
	for form := 2; form < 4; form++ {
		for h := range c11Holes {
			addPieces("hole-alone", form, []c11Piece{{"", h}})
			addPieces("hole-start", form, []c11Piece{{"", h}, {" tail", -1}})
			addPieces("hole-middle", form, []c11Piece{{"head ", -1}, {"", h}, {" tail", -1}})
			addPieces("hole-end", form, []c11Piece{{"head=", -1}, {"", h}})
			for h2 := range c11Holes {
				if (h+h2)%3 == 0 {
					addPieces("holes-adjacent", form, []c11Piece{{"", h}, {"", h2}})
					addPieces("holes-percent-between", form, []c11Piece{{"", h}, {"%", -1}, {"", h2}, {"%d", -1}})
				}
			}
		}
	}
	// 3b. hole sequences: every sequence of 1..4 holes over three names (repetitions in every
	// position), bare and with text between, so that each hole is checked against ITS value
	for form := 2; form < 4; form++ {
		names := []int{0, 1, 3} // hi, hs, hneg
		var rec func(seq []int)
		rec = func(seq []int) {
			if len(seq) > 0 {
				var bare, sep []c11Piece
				for i, h := range seq {
					bare = append(bare, c11Piece{"", h})
					if i > 0 {
						sep = append(sep, c11Piece{",", -1})
					}
					sep = append(sep, c11Piece{"", h})
				}
				addPieces("hole-sequence", form, bare)
				if len(seq) > 1 {
					addPieces("hole-sequence-separated", form, sep)
				}
			}
			if len(seq) == 4 {
				return
			}
			for _, h := range names {
				rec(append(append([]int{}, seq...), h))
			}
		}
		rec(nil)
	}
	// 4. random bodies
	n := 2000
	if tier == "thorough" {
		n = 40000
	}
	alpha := []string{"a", "b", "Z", "0", " ", "  ", "%", "%d", "%s", "%v", "%%", "\"", "\\", "'", "`", "{", "}", "\n", "\t", "é", "日本", "🎉", "/", "//", "/*", "*/", "|", "->", "$", "#", "&&", "<", ">", "=", ";", ":", ",", ".", "(", ")", "[", "]", "\\n", "let", "\r"}
	for k := 0; k < n; k++ {
		form := rng.Intn(4)
		var pieces []c11Piece
		np := 1 + rng.Intn(8)
		for i := 0; i < np; i++ {
			if form >= 2 && rng.Chance(0.25) {
				pieces = append(pieces, c11Piece{"", rng.Intn(len(c11Holes))})
			} else {
				pieces = append(pieces, c11Piece{alpha[rng.Intn(len(alpha))], -1})
			}
		}
		addPieces("random", form, pieces)
	}
	return out
}

// c11LoneProgram: a file whose ONLY string literal is the one under test (hole values and the
// framing come from hand-written Go in the same package), at the same byte offset for every literal.
func c11LoneProgram(pkg string, l *c11Lit) string {
	return "package " + pkg + `

import frt

type Rc = {A: int; B: string; f_x: int}

package_info _ =
  let C11Frame: string->()
  let C11Str: int->string

let lit (hi:int) (hs:string) (hb:bool) (hneg:int) (hempty:string) (hl:[]int) (hr:Rc) (h_under:int) (_hlead:string) (h2d:int) (H_UP:string) (h__:string) (ht:int*string) =
  ` + l.src + `

let Run () =
  C11Frame (lit 42 (C11Str 0) true (0 - 7) (C11Str 1) [1; 2; 3] {A=1; B=C11Str 2; f_x=9} 70 (C11Str 3) 22 (C11Str 4) (C11Str 5) (7, C11Str 6))
`
}

const c11LoneHelper = `

import "fmt"

func C11Frame(s string) { fmt.Printf("LIT:%d:%s\n", len(s), s) }

func C11Str(i int) string { return []string{"S t", "", "x", "lead", "up", "dd", "u"}[i] }
`

func c11Program(pkg string, lits []*c11Lit) string {
	var b strings.Builder
	b.WriteString("package " + pkg + "\n" + c11Prelude + "let Run () =\n")
	for _, l := range lits {
		fmt.Fprintf(&b, "  frame \"%s\" %s\n", l.id, l.src)
	}
	b.WriteString("  frame \"END\" \"\"\n")
	return b.String()
}

// c11ParseFrames reads <id>:<len>:<bytes>\n records.
func c11ParseFrames(out string) map[string]string {
	res := map[string]string{}
	i := 0
	for i < len(out) {
		j := strings.IndexByte(out[i:], ':')
		if j < 0 {
			break
		}
		id := out[i : i+j]
		k := strings.IndexByte(out[i+j+1:], ':')
		if k < 0 {
			break
		}
		n, err := strconv.Atoi(out[i+j+1 : i+j+1+k])
		start := i + j + 1 + k + 1
		if err != nil || start+n > len(out) {
			break
		}
		res[id] = out[start : start+n]
		i = start + n + 1
	}
	return res
}

func runC11(r *core.Run, tier string) {
	env, err := scratch.New("C11")
	if err != nil {
		r.Inconclusive("scratch: " + err.Error())
		return
	}
	defer env.Close()
	fc, err := env.FC()
	if err != nil {
		r.Inconclusive("fc does not build: " + err.Error())
		return
	}
	r.Rule("a case is one literal in one of the four forms (\"..\", `..`, $\"..\", $`..`): every printable ASCII character, newline, tab and 64 multi-byte code points (2-, 3- and 4-byte) alone and between two letters, every ASCII punctuation character doubled and tripled (minus the characters that are syntax of the form), the four escapes, \\{ \\}, percent signs, holes of type int / string / bool / negative int / empty string / slice / record / tuple / record field at start, middle, end and adjacent, every sequence of 1..4 holes over three names, and seeded random bodies; the program prints each literal framed as <id>:<byte length>:<bytes>; the printed bytes are compared with the value the four documented rules give; a third pass sends chains of eight files made from one template, each holding the literal under test as its ONLY literal at the same byte offset (hole values and framing come from hand-written Go), through ONE fc invocation and checks every emitted program again; non-trivial = body non-empty; distinct by literal text")
	r.Assume("only the escapes \\n \\t \\\\ \\\" (and \\{ \\} in $\"..\") are written; other backslash sequences are outside the statement", "holes of union type are not asserted (their display is fc's own Stringer text); float holes are not asserted")
	lits := c11Generate(tier, core.NewRand(r.SeedV, "c11"))
	// pass 1: 60 literals per program; pass 2: every literal of a failing program alone
	type unit struct {
		name string
		lits []*c11Lit
	}
	runUnits := func(tag string, units []unit) {
		cases := make([]*progCase, len(units))
		for i, u := range units {
			cases[i] = &progCase{name: u.name, src: c11Program(u.name, u.lits)}
		}
		transpileAll(fc, env.PkgAll(), env, tag+"fc", cases)
		var progs []gobatch.Prog
		for _, c := range cases {
			if c.status == "" {
				progs = append(progs, gobatch.Prog{Name: c.name, Files: map[string]string{"gen_x.go": c.gen}})
			}
		}
		per := 100
		nb := (len(progs) + per - 1) / per
		results := make([]*gobatch.Result, nb)
		scratch.Parallel(nb, 6, func(b int) {
			lo, hi := b*per, (b+1)*per
			if hi > len(progs) {
				hi = len(progs)
			}
			results[b] = gobatch.Run(env, fmt.Sprintf("%s-b%d", tag, b), progs[lo:hi], 300)
		})
		merged := &gobatch.Result{CompileErr: map[string]string{}, Output: map[string]string{}, Panic: map[string]string{}, Died: map[string]string{}}
		for _, br := range results {
			if br.Inconcl != "" {
				r.Inconclusive("execution batch: " + br.Inconcl)
			}
			for k, v := range br.CompileErr {
				merged.CompileErr[k] = v
			}
			for k, v := range br.Output {
				merged.Output[k] = v
			}
			for k, v := range br.Panic {
				merged.Panic[k] = v
			}
			for k, v := range br.Died {
				merged.Died[k] = v
			}
		}
		for i, u := range units {
			c := cases[i]
			set := func(st, detail string) {
				for _, l := range u.lits {
					l.status, l.detail = st, detail
				}
			}
			switch {
			case c.status == "fc-rejected":
				set("rejected", c.detail)
			case c.status == "inconclusive":
				set("inconclusive", "")
			case merged.CompileErr[u.name] != "":
				set("compile", merged.CompileErr[u.name])
			case merged.Died[u.name] != "":
				set("died", merged.Died[u.name])
			default:
				frames := c11ParseFrames(merged.Output[u.name])
				for _, l := range u.lits {
					got, ok := frames[l.id]
					switch {
					case !ok:
						l.status, l.detail = "missing", "no frame printed (panic: "+merged.Panic[u.name]+")"
					case got == l.want:
						l.status = "ok"
					default:
						l.status, l.got = "mismatch", got
					}
				}
			}
		}
	}
	var units []unit
	const per = 60
	for i := 0; i < len(lits); i += per {
		hi := i + per
		if hi > len(lits) {
			hi = len(lits)
		}
		units = append(units, unit{fmt.Sprintf("p%d", len(units)), lits[i:hi]})
	}
	runUnits("c11a", units)
	var single []unit
	for _, u := range units {
		bad := false
		for _, l := range u.lits {
			if l.status != "ok" {
				bad = true
			}
		}
		if bad {
			for _, l := range u.lits {
				single = append(single, unit{fmt.Sprintf("p%d", 100000+len(single)), []*c11Lit{l}})
			}
		}
	}
	if len(single) > 0 {
		runUnits("c11b", single)
	}
	// pass 3: what a literal denotes must not depend on what the same fc process scanned before.
	// Chains of 8 one-literal files made from ONE template (so the literal starts at the same byte
	// offset in every file) go through one invocation; each emitted program prints its own literal.
	{
		nChains := 24
		if tier == "thorough" {
			nChains = 400
		}
		crng := core.NewRand(r.SeedV, "c11chain")
		byForm := map[int][]*c11Lit{}
		for _, l := range lits {
			if l.status == "ok" {
				byForm[l.form] = append(byForm[l.form], l)
			}
		}
		type link struct {
			name  string
			lit   *c11Lit
			gen   string
			chain int
		}
		var links []*link
		chainDiag := map[int]string{}
		chainSrc := map[int]map[string]string{}
		for ch := 0; ch < nChains; ch++ {
			form := ch % 4
			if len(byForm[form]) < 8 {
				continue
			}
			files := map[string]string{}
			var order []string
			var mine []*link
			for k := 0; k < 8; k++ {
				l := byForm[form][crng.Intn(len(byForm[form]))]
				name := fmt.Sprintf("p%d", 300000+ch*8+k)
				files[name+"/x.fo"] = c11LoneProgram(name, l)
				order = append(order, name+"/x.fo")
				mine = append(mine, &link{name: name, lit: l, chain: ch})
			}
			d := env.Dir(fmt.Sprintf("c11chain/%d", ch))
			out := fcx.Transpile(fc, env.PkgAll(), d, files, order, nil, 60)
			os.RemoveAll(d)
			chainSrc[ch] = files
			if out.Res.WallOut {
				r.Inconclusive("watchdog")
				continue
			}
			chainDiag[ch] = out.Diag()
			for _, lk := range mine {
				lk.gen = out.Gen[lk.name+"/gen_x.go"]
				links = append(links, lk)
			}
			if out.Res.Exit != 0 {
				r.Violate(fmt.Sprintf("chain-rejected:%s:%d", c11FormName[form], ch), "eight one-literal files, each accepted alone, are rejected in one invocation: "+oneLineN(out.Diag(), 200), files)
			}
		}
		var progs []gobatch.Prog
		for _, lk := range links {
			if lk.gen != "" {
				progs = append(progs, gobatch.Prog{Name: lk.name, Files: map[string]string{"gen_x.go": lk.gen, "helper.go": "package " + lk.name + c11LoneHelper}})
			}
		}
		per := 100
		nb := (len(progs) + per - 1) / per
		results := make([]*gobatch.Result, nb)
		scratch.Parallel(nb, 6, func(b int) {
			lo, hi := b*per, (b+1)*per
			if hi > len(progs) {
				hi = len(progs)
			}
			results[b] = gobatch.Run(env, fmt.Sprintf("c11c-b%d", b), progs[lo:hi], 300)
		})
		seen := map[string]bool{}
		for _, br := range results {
			if br.Inconcl != "" {
				r.Inconclusive("execution batch: " + br.Inconcl)
			}
			for _, lk := range links {
				if lk.gen == "" || seen[lk.name] {
					continue
				}
				out, ran := br.Output[lk.name]
				ce := br.CompileErr[lk.name]
				if !ran && ce == "" && br.Died[lk.name] == "" && br.Panic[lk.name] == "" {
					continue // in another batch
				}
				seen[lk.name] = true
				r.Eval("chain:"+lk.name+":"+lk.lit.src, true)
				r.Count("literals_checked_as_a_later_file_of_one_invocation", 1)
				got, ok := c11ParseFrames(out)["LIT"]
				if ce != "" || !ok || got != lk.lit.want {
					files := map[string]string{"literal.txt": lk.lit.src + "\n", "expected_value.txt": lk.lit.want, "observed_value.txt": got, "detail.txt": ce + br.Died[lk.name] + br.Panic[lk.name] + "\n"}
					for n, c := range chainSrc[lk.chain] {
						files["invocation/"+n] = c
					}
					r.Violate("literal-value-in-chain:"+lk.lit.src, fmt.Sprintf("%s literal %s, correct when translated alone, evaluates to %s as file %s of an eight-file invocation (the rules give %s) %s", c11FormName[lk.lit.form], strconv.Quote(lk.lit.src), strconv.Quote(got), lk.name, strconv.Quote(lk.lit.want), oneLineN(ce, 120)), files)
				}
			}
		}
	}
	classes := map[string]int64{}
	forms := map[string]int64{}
	okN := 0
	for _, l := range lits {
		r.Eval(l.src, l.want != "")
		classes[l.class]++
		forms[c11FormName[l.form]]++
		files := map[string]string{"literal.txt": l.src + "\n", "expected_value.txt": l.want, "observed_value.txt": l.got, "detail.txt": l.detail + "\n", "x.fo": c11Program("main", []*c11Lit{l})}
		desc := fmt.Sprintf("%s literal %s", c11FormName[l.form], strconv.Quote(l.src))
		switch l.status {
		case "ok":
			okN++
		case "inconclusive":
			r.Inconclusive("watchdog")
		case "rejected":
			r.Violate("literal-rejected:"+l.src, desc+" is rejected by fc: "+oneLineN(l.detail, 160), files)
		case "compile":
			r.Violate("literal-go-compile:"+l.src, desc+": emitted Go does not compile: "+oneLineN(l.detail, 200), files)
		case "mismatch":
			r.Violate("literal-value:"+l.src, fmt.Sprintf("%s evaluates to %s, the rules give %s", desc, strconv.Quote(l.got), strconv.Quote(l.want)), files)
		default:
			r.Violate("literal-run:"+l.src, desc+": program "+l.status+": "+oneLineN(l.detail, 200), files)
		}
	}
	r.Set("literals", len(lits))
	r.Set("literals_printing_their_text", okN)
	r.Set("by_class", classes)
	r.Set("by_form", forms)
	r.Set("programs_first_pass", len(units))
	r.Set("literals_rerun_alone", len(single))
	for _, i := range []int{5, 400, 900, len(lits) - 1} {
		if i < len(lits) {
			r.Sample(map[string]any{"form": c11FormName[lits[i].form], "literal": lits[i].src, "value": lits[i].want, "class": lits[i].class})
		}
	}
	r.Set("exhaustive_part", "every single character of the alphabet in each of the 4 forms")
}
