package checks

import (
	"fmt"
	"os"
	"path/filepath"
	"strings"

	"verif/internal/core"
	"verif/internal/fcx"
	"verif/internal/scratch"
)

func init() { register("C18", "exploration", runC18) }

type c18Entry struct {
	file    string
	title   string // "" with hasTitle=false: no title on the line
	hasT    bool
	content string
	missing bool
	isDir   bool // the listed name exists but is a directory: it opens, and cannot be read
}

type c18Case struct {
	lines    []string // raw lines of the list file (entries and blank lines)
	entries  []c18Entry
	finalNL  bool
	subdir   string // "" or a sub-directory holding the list
	sentinel bool   // a README.md exists beforehand
}

// c18Expected is the reference renderer, written from the property statement
// and the shipped samples/README.md.
func c18Expected(c *c18Case) (string, bool) {
	var b strings.Builder
	b.WriteString("## Folang Sample \n\n\n")
	for i, e := range c.entries {
		if e.missing {
			return "", false
		}
		if i > 0 {
			b.WriteString("\n")
		}
		title := e.file
		if e.hasT {
			title = e.title
		}
		base := strings.TrimSuffix(e.file, ".fo")
		fmt.Fprintf(&b, "### %s\n\n```\n%s\n```\n\ngenerated go: [gen_%s.go](./gen_%s.go)\n\n", title, e.content, base, base)
	}
	return b.String(), true
}

var c18Contents = []string{
	"package main\n\nlet main () =\n  1\n",
	"",
	"no trailing newline",
	"```\nfenced ``` inside\n```\n",
	"100% %d %s %v\n",
	"### heading inside\n## another\n",
	"日本語 ünï çödé 🎉\n",
	"\n\nleading blank lines\n\n\n",
	"tab\there\r\nCRLF line\n",
	"a\x00b\n",
	"let s = `raw`\nlet t = $\"{x}\"\n",
	strings.Repeat("long line ", 400) + "\n",
	"\xef\xbb\xbfpackage main // starts with a UTF-8 byte order mark\n",
	"mid \xef\xbb\xbf BOM\n\xef\xbb\xbf",
	"\xff\xfe invalid UTF-8 \xc3\n",
	" \t leading and trailing white space \t \n \n",
	"\r\n\r\n",
	"\x1b[31mescape sequences\x1b[0m\x07\n",
}

var c18Titles = []string{"", "Simple", "Two words", "Three  spaces   inside", " leading space", "trailing space ", "with `tick` and %d", "日本語 title", "a", "### hashes", "x.fo"}

func c18Generate(rng *core.Rand, k int) *c18Case {
	c := &c18Case{finalNL: rng.Chance(0.7), sentinel: rng.Chance(0.3)}
	if rng.Chance(0.25) {
		c.subdir = core.Pick(rng, []string{"sub", "a/b", "dir with space"})
	}
	n := rng.Intn(13)
	if k%17 == 0 {
		n = 0
	}
	missingAt := -1
	if n > 0 && rng.Chance(0.2) {
		missingAt = rng.Intn(n)
	}
	blank := func() {
		for rng.Chance(0.25) {
			c.lines = append(c.lines, "")
		}
	}
	blank()
	for i := 0; i < n; i++ {
		e := c18Entry{content: core.Pick(rng, c18Contents)}
		switch rng.Intn(6) {
		case 0:
			e.file = fmt.Sprintf("f%d", i) // no .fo suffix
		case 1:
			e.file = fmt.Sprintf("dup.fo") // the same file may be listed twice
			e.content = c18Contents[0]
		default:
			e.file = fmt.Sprintf("s%d_%s.fo", i, core.Pick(rng, []string{"a", "union_match", "x.y", "UPPER", "gen_x", "hello", "info", "elif", "foo", "o", "f", "x.fo", "off.", "日本", "100%"}))
		}
		if rng.Chance(0.75) {
			e.hasT = true
			e.title = core.Pick(rng, c18Titles)
		}
		if i == missingAt {
			e.missing = true
			e.file = fmt.Sprintf("missing%d.fo", i)
			if rng.Chance(0.4) {
				e.isDir = true
				e.file = fmt.Sprintf("adir%d.fo", i)
			}
		}
		line := e.file
		if e.hasT {
			line += " " + e.title
		}
		c.entries = append(c.entries, e)
		c.lines = append(c.lines, line)
		blank()
	}
	return c
}

func (c *c18Case) listText() string {
	s := strings.Join(c.lines, "\n")
	if c.finalNL && len(c.lines) > 0 {
		s += "\n"
	}
	return s
}

func (c *c18Case) key() string {
	return core.Hash(c.listText(), c.subdir, fmt.Sprint(c.sentinel, len(c.entries)))
}

func runC18(r *core.Run, tier string) {
	env, err := scratch.New("C18")
	if err != nil {
		r.Inconclusive("scratch: " + err.Error())
		return
	}
	defer env.Close()
	r.Rule("a case is one generated directory (list file with 0..12 entries, titles with several / leading / trailing spaces, entries without title, blank lines anywhere, with or without final newline, list in a sub-directory, sample contents with back-ticks, %, ###, NUL, CRLF, multi-byte text, empty, no trailing newline; optionally one listed file missing or being a directory (it opens but cannot be read); optionally a README.md present beforehand, shorter or longer than the new rendering) processed by each of two builds of the tool (checked-in gen_build_sample_md.go; build_sample_md.fo re-transpiled by the rebuilt fc); README.md is compared byte for byte with a reference renderer; with a missing file the run must exit non-zero and leave README.md as it was; non-trivial = at least 2 entries; distinct by list text")
	r.Assume("file names contain no spaces and no directory separators", "an entry whose file cannot be read must fail the run (statement: 'fails instead of writing a partial section')")
	type tool struct{ name, bin string }
	var tools []tool
	if b, err := env.BSM(); err != nil {
		r.Violate("tool-does-not-build", "cmd/build_sample_md does not build from the checked-in gen file: "+oneLineN(err.Error(), 300), map[string]string{"error.txt": err.Error()})
	} else {
		tools = append(tools, tool{"checked-in", b})
	}
	// second build: from the rebuilt fc's translation
	if fc, err := env.FC(); err == nil {
		d := env.Dir("bsm2")
		copyTree(filepath.Join(env.Repo, "cmd", "build_sample_md"), d)
		// module paths in go.mod are relative (../../pkg): rewrite to the scratch copy
		if gm, err := os.ReadFile(filepath.Join(d, "go.mod")); err == nil {
			os.WriteFile(filepath.Join(d, "go.mod"), []byte(strings.ReplaceAll(string(gm), "=> ../..", "=> "+env.Repo)), 0o644)
		}
		os.Remove(filepath.Join(d, "gen_build_sample_md.go"))
		out := fcx.Transpile(fc, env.PkgAll(), d, nil, []string{"build_sample_md.fo"}, nil, 60)
		if out.Res.Exit != 0 {
			r.Violate("tool-does-not-transpile", "build_sample_md.fo is rejected by the rebuilt fc: "+oneLineN(out.Diag(), 300), nil)
		} else if err := env.GoBuild(d, filepath.Join(env.Bin, "bsm2"), ""); err != nil {
			r.Violate("retranspiled-tool-does-not-build", "re-transpiled build_sample_md does not compile: "+oneLineN(err.Error(), 300), map[string]string{"error.txt": err.Error()})
		} else {
			tools = append(tools, tool{"retranspiled", filepath.Join(env.Bin, "bsm2")})
		}
	} else {
		r.Inconclusive("fc does not build: " + err.Error())
	}
	n := 1000
	if tier == "thorough" {
		n = 10000
	}
	rng := core.NewRand(r.SeedV, "c18")
	cases := make([]*c18Case, n)
	for i := range cases {
		cases[i] = c18Generate(rng.Split(fmt.Sprint(i)), i)
	}
	type res struct{ viol []string }
	results := make([][]string, n)
	base := env.Dir("c18")
	scratch.Parallel(n, 16, func(i int) {
		c := cases[i]
		want, ok := c18Expected(c)
		for _, t := range tools {
			d := filepath.Join(base, fmt.Sprintf("d%d-%s", i, t.name))
			ld := filepath.Join(d, c.subdir)
			os.MkdirAll(ld, 0o755)
			for _, e := range c.entries {
				if !e.missing {
					os.WriteFile(filepath.Join(ld, e.file), []byte(e.content), 0o644)
				} else if e.isDir {
					os.MkdirAll(filepath.Join(ld, e.file), 0o755)
				}
			}
			os.WriteFile(filepath.Join(ld, "list.txt"), []byte(c.listText()), 0o644)
			// the README.md present beforehand is shorter than any rendering in half of the cases and
			// longer than this rendering in the other half (a regeneration after the list shrank)
			sentinel := "SENTINEL README\n"
			if i%2 == 0 {
				sentinel += strings.Repeat("stale line of an earlier, longer README\n", (len(want)+i%997)/40+1)
			}
			if c.sentinel {
				os.WriteFile(filepath.Join(ld, "README.md"), []byte(sentinel), 0o644)
			}
			run := scratch.Run(scratch.Cmd{Path: t.bin, Args: []string{filepath.Join(c.subdir, "list.txt")}, Dir: d, CPUSec: 20, WallSec: 120})
			got, rerr := os.ReadFile(filepath.Join(ld, "README.md"))
			switch {
			case run.WallOut:
				results[i] = append(results[i], "inconclusive")
			case run.CPUOut:
				results[i] = append(results[i], t.name+": tool did not terminate within the CPU budget")
			case ok:
				if run.Exit != 0 {
					results[i] = append(results[i], fmt.Sprintf("%s: exit %d on a readable list: %s", t.name, run.Exit, oneLineN(run.Stdout+run.Stderr, 200)))
				} else if rerr != nil {
					results[i] = append(results[i], t.name+": README.md not written")
				} else if string(got) != want {
					results[i] = append(results[i], fmt.Sprintf("%s: README.md differs from the reference rendering (first difference at byte %d: got %q, want %q)", t.name, firstDiff(string(got), want), around(string(got), firstDiff(string(got), want)), around(want, firstDiff(string(got), want))))
				}
			default: // a listed file is missing: must fail and write nothing
				if run.Exit == 0 {
					results[i] = append(results[i], t.name+": exit 0 although a listed file cannot be read")
				}
				if c.sentinel {
					if rerr != nil || string(got) != sentinel {
						results[i] = append(results[i], t.name+": README.md was (re)written although a listed file cannot be read")
					}
				} else if rerr == nil {
					results[i] = append(results[i], t.name+": a README.md was written although a listed file cannot be read")
				}
			}
			os.RemoveAll(d)
		}
	})
	nMissing, nSub := 0, 0
	for i, c := range cases {
		r.Eval(c.key(), len(c.entries) >= 2)
		if _, ok := c18Expected(c); !ok {
			nMissing++
		}
		if c.subdir != "" {
			nSub++
		}
		for _, v := range results[i] {
			if v == "inconclusive" {
				r.Inconclusive("watchdog")
				continue
			}
			files := map[string]string{"list.txt": c.listText(), "case.txt": fmt.Sprintf("subdir=%q sentinel=%v entries=%+v\n", c.subdir, c.sentinel, c.entries)}
			if w, ok := c18Expected(c); ok {
				files["expected_README.md"] = w
			}
			r.Violate("c18:"+strings.SplitN(v, ":", 2)[0]+":"+c.key(), v, files)
		}
	}
	r.Set("tools", len(tools))
	r.Set("tool_runs", n*len(tools))
	r.Set("cases_with_missing_file", nMissing)
	r.Set("cases_with_list_in_subdirectory", nSub)
	if len(tools) > 0 && n > 3 {
		for _, i := range []int{1, 2, 3} {
			r.Sample(map[string]any{"list_lines": cases[i].lines, "final_newline": cases[i].finalNL, "subdir": cases[i].subdir, "entries": len(cases[i].entries)})
		}
	}
	if len(tools) < 2 {
		r.Inconclusive("fewer than two builds of the tool available")
	}
}

func firstDiff(a, b string) int {
	n := len(a)
	if len(b) < n {
		n = len(b)
	}
	for i := 0; i < n; i++ {
		if a[i] != b[i] {
			return i
		}
	}
	return n
}

func around(s string, at int) string {
	lo, hi := at-20, at+30
	if lo < 0 {
		lo = 0
	}
	if hi > len(s) {
		hi = len(s)
	}
	if lo > len(s) {
		lo = len(s)
	}
	return s[lo:hi]
}
