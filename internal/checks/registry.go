// Package checks holds one deciding procedure per property.
package checks

import (
	"sort"

	"verif/internal/core"
)

type Check struct {
	ID    string
	Level string
	Run   func(r *core.Run, tier string)
}

var registry = map[string]*Check{}

func register(id, level string, f func(r *core.Run, tier string)) {
	registry[id] = &Check{ID: id, Level: level, Run: f}
}

func Get(id string) *Check { return registry[id] }

func IDs() []string {
	var ids []string
	for k := range registry {
		ids = append(ids, k)
	}
	sort.Strings(ids)
	return ids
}
