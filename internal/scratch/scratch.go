// Package scratch snapshots /repo's working tree into a throw-away directory
// outside /repo and /verif, builds the real binaries there (with the verif
// build tag) and runs commands under CPU / wall limits.
package scratch

import (
	"bytes"
	"context"
	"fmt"
	"os"
	"os/exec"
	"path/filepath"
	"strings"
	"sync"
	"syscall"
	"time"

	"verif/internal/core"
)

type Env struct {
	Root string // scratch root
	Repo string // copy of the working tree
	Bin  string // built binaries
	mu   sync.Mutex
	fc   map[string]string
}

func GoEnv() []string {
	env := os.Environ()
	env = append(env, "GOFLAGS=-mod=mod", "GOPROXY=off", "GOSUMDB=off", "GOTOOLCHAIN=local", "CGO_ENABLED=0")
	return env
}

func baseDir() string {
	if v := os.Getenv("VERIF_SCRATCH"); v != "" {
		return v
	}
	if st, err := os.Stat("/dev/shm"); err == nil && st.IsDir() {
		if f, err := os.CreateTemp("/dev/shm", "vprobe"); err == nil {
			f.Close()
			os.Remove(f.Name())
			return "/dev/shm"
		}
	}
	return os.TempDir()
}

// New copies the working tree of the repository under test.
func New(tag string) (*Env, error) {
	root, err := os.MkdirTemp(baseDir(), "verif-"+tag+"-")
	if err != nil {
		return nil, err
	}
	e := &Env{Root: root, Repo: filepath.Join(root, "repo"), Bin: filepath.Join(root, "bin"), fc: map[string]string{}}
	os.MkdirAll(e.Bin, 0o755)
	src := core.RepoRoot()
	cmd := exec.Command("rsync", "-a", "--exclude", "/.git", "--exclude", "/fc/fc", "--exclude", "/tinyfo/tinyfo",
		"--exclude", "/cmd/build_sample_md/build_sample_md", src+"/", e.Repo+"/")
	if out, err := cmd.CombinedOutput(); err != nil {
		e.Close()
		return nil, fmt.Errorf("rsync: %v: %s", err, out)
	}
	return e, nil
}

func (e *Env) Close() {
	if os.Getenv("VERIF_KEEP_SCRATCH") != "" {
		fmt.Fprintln(os.Stderr, "scratch kept:", e.Root)
		return
	}
	os.RemoveAll(e.Root)
}

// Dir makes a fresh sub-directory of the scratch root.
func (e *Env) Dir(name string) string {
	d := filepath.Join(e.Root, name)
	os.MkdirAll(d, 0o755)
	return d
}

// GoBuild builds the package in dir (inside the scratch copy) to out.
func (e *Env) GoBuild(dir, out string, tags string, extra ...string) error {
	args := []string{"build", "-trimpath"}
	if tags != "" {
		args = append(args, "-tags", tags)
	}
	args = append(args, extra...)
	args = append(args, "-o", out, ".")
	cmd := exec.Command("go", args...)
	cmd.Dir = dir
	cmd.Env = GoEnv()
	if b, err := cmd.CombinedOutput(); err != nil {
		return fmt.Errorf("go build in %s: %v\n%s", dir, err, b)
	}
	return nil
}

// FC builds (once) the fc binary of the scratch copy with the verif tag.
func (e *Env) FC() (string, error) { return e.buildTool("fc", "fc") }

func (e *Env) TinyFo() (string, error) { return e.buildTool("tinyfo", "tinyfo") }

func (e *Env) BSM() (string, error) { return e.buildTool("cmd/build_sample_md", "build_sample_md") }

func (e *Env) buildTool(rel, name string) (string, error) {
	e.mu.Lock()
	defer e.mu.Unlock()
	if p, ok := e.fc[name]; ok {
		return p, nil
	}
	out := filepath.Join(e.Bin, name)
	if err := e.GoBuild(filepath.Join(e.Repo, rel), out, "verif"); err != nil {
		return "", err
	}
	e.fc[name] = out
	return out, nil
}

func (e *Env) PkgAll() string { return filepath.Join(e.Repo, "pkg", "pkg_all.foi") }

// Workspace creates a Go module directory whose folang imports resolve to the
// scratch copy's pkg/*.
func (e *Env) Workspace(name, module string) (string, error) {
	d := e.Dir(name)
	var b strings.Builder
	fmt.Fprintf(&b, "module %s\n\ngo 1.23.4\n\n", module)
	for _, p := range []string{"frt", "slice", "dict", "strings", "buf", "sys"} {
		fmt.Fprintf(&b, "replace github.com/karino2/folang/pkg/%s => %s\n", p, filepath.Join(e.Repo, "pkg", p))
	}
	b.WriteString("\nrequire (\n")
	for _, p := range []string{"frt", "slice", "dict", "strings", "buf", "sys"} {
		fmt.Fprintf(&b, "\tgithub.com/karino2/folang/pkg/%s v0.0.0-00010101000000-000000000000\n", p)
	}
	b.WriteString(")\n")
	if err := os.WriteFile(filepath.Join(d, "go.mod"), []byte(b.String()), 0o644); err != nil {
		return "", err
	}
	sum, err := os.ReadFile(filepath.Join(e.Repo, "fc", "go.sum"))
	if err == nil {
		os.WriteFile(filepath.Join(d, "go.sum"), sum, 0o644)
	}
	return d, nil
}

// ---------------------------------------------------------------------------

type Result struct {
	Exit     int
	Signal   string
	Stdout   string
	Stderr   string
	WallOut  bool // wall-clock watchdog fired (inconclusive, never a verdict)
	CPUOut   bool // killed by RLIMIT_CPU (SIGXCPU / SIGKILL after cpu limit)
	CPU      time.Duration
	Wall     time.Duration
	StartErr error
}

type Cmd struct {
	Path    string
	Args    []string
	Dir     string
	Env     []string // appended to os.Environ
	Stdin   string
	CPUSec  int // RLIMIT_CPU in seconds (0 = none)
	MemKB   int // RLIMIT_AS in KiB (0 = none)
	WallSec int // watchdog (0 = 300)
	MaxOut  int // cap on captured bytes per stream (0 = 4 MiB)
}

type capBuf struct {
	b   bytes.Buffer
	max int
}

func (c *capBuf) Write(p []byte) (int, error) {
	if c.b.Len() < c.max {
		n := c.max - c.b.Len()
		if n > len(p) {
			n = len(p)
		}
		c.b.Write(p[:n])
	}
	return len(p), nil
}

// Run executes the command under the limits. CPU limits are applied with the
// shell's ulimit so that CPU time, not wall time, decides a "hang".
func Run(c Cmd) Result {
	wall := c.WallSec
	if wall == 0 {
		wall = 300
	}
	ctx, cancel := context.WithTimeout(context.Background(), time.Duration(wall)*time.Second)
	defer cancel()
	var cmd *exec.Cmd
	if c.CPUSec > 0 || c.MemKB > 0 {
		script := ""
		if c.CPUSec > 0 {
			script += fmt.Sprintf("ulimit -S -t %d; ulimit -H -t %d; ", c.CPUSec, c.CPUSec+5)
		}
		if c.MemKB > 0 {
			script += fmt.Sprintf("ulimit -v %d; ", c.MemKB)
		}
		script += `exec "$@"`
		args := append([]string{"-c", script, "sh", c.Path}, c.Args...)
		cmd = exec.CommandContext(ctx, "/bin/sh", args...)
	} else {
		cmd = exec.CommandContext(ctx, c.Path, c.Args...)
	}
	cmd.Dir = c.Dir
	cmd.Env = append(os.Environ(), c.Env...)
	if c.Stdin != "" {
		cmd.Stdin = strings.NewReader(c.Stdin)
	}
	max := c.MaxOut
	if max == 0 {
		max = 4 << 20
	}
	so, se := &capBuf{max: max}, &capBuf{max: max}
	cmd.Stdout, cmd.Stderr = so, se
	cmd.SysProcAttr = &syscall.SysProcAttr{Setpgid: true}
	cmd.Cancel = func() error {
		return syscall.Kill(-cmd.Process.Pid, syscall.SIGKILL)
	}
	t0 := time.Now()
	err := cmd.Run()
	res := Result{Stdout: so.b.String(), Stderr: se.b.String(), Wall: time.Since(t0)}
	if cmd.ProcessState != nil {
		res.CPU = cmd.ProcessState.UserTime() + cmd.ProcessState.SystemTime()
		if ws, ok := cmd.ProcessState.Sys().(syscall.WaitStatus); ok {
			if ws.Signaled() {
				res.Signal = ws.Signal().String()
				res.Exit = 128 + int(ws.Signal())
				if ws.Signal() == syscall.SIGXCPU {
					res.CPUOut = true
				}
				if ws.Signal() == syscall.SIGKILL && c.CPUSec > 0 && res.CPU >= time.Duration(c.CPUSec)*time.Second*9/10 {
					res.CPUOut = true
				}
			} else {
				res.Exit = ws.ExitStatus()
			}
		}
	} else if err != nil {
		res.StartErr = err
		res.Exit = -1
	}
	if ctx.Err() == context.DeadlineExceeded {
		res.WallOut = true
	}
	return res
}

// Parallel runs f(i) for i in [0,n) on w workers.
func Parallel(n, w int, f func(i int)) {
	if w < 1 {
		w = 1
	}
	var wg sync.WaitGroup
	ch := make(chan int)
	for k := 0; k < w; k++ {
		wg.Add(1)
		go func() {
			defer wg.Done()
			for i := range ch {
				f(i)
			}
		}()
	}
	for i := 0; i < n; i++ {
		ch <- i
	}
	close(ch)
	wg.Wait()
}
