// Package core holds what every check shares: the run record (counts, samples,
// violations), the evidence writer, the VIOLATION / KNOWN-FINDING protocol and
// the seeded PRNG.
package core

import (
	"bufio"
	"crypto/sha256"
	"encoding/hex"
	"encoding/json"
	"fmt"
	"os"
	"path/filepath"
	"regexp"
	"sort"
	"strconv"
	"strings"
	"sync"
	"time"
)

// VerifRoot is the /verif directory (cwd of every registered command).
func VerifRoot() string {
	if v := os.Getenv("VERIF_ROOT"); v != "" {
		return v
	}
	wd, err := os.Getwd()
	if err != nil {
		return "/verif"
	}
	return wd
}

// RepoRoot is the tree under test.
func RepoRoot() string {
	if v := os.Getenv("VERIF_REPO"); v != "" {
		return v
	}
	return "/repo"
}

func Seed() int64 {
	if v := os.Getenv("VERIF_SEED"); v != "" {
		if n, err := strconv.ParseInt(v, 10, 64); err == nil {
			return n
		}
	}
	return 1
}

func Hash(parts ...string) string {
	h := sha256.New()
	for _, p := range parts {
		h.Write([]byte(p))
		h.Write([]byte{0})
	}
	return hex.EncodeToString(h.Sum(nil))[:16]
}

// Known is one line of KNOWN_FINDINGS.txt.
type Known struct {
	Status   string `json:"status"` // "known" | "fixed"
	Property string `json:"property"`
	Witness  string `json:"witness"` // witness signature as the check computes it
	What     string `json:"what"`
	Commit   string `json:"commit,omitempty"`
}

// LoadKnown reads /verif/KNOWN_FINDINGS.txt. Line forms:
//
//	known: property=<id> witness=<signature> <what fails>
//	fixed: property=<id> <commit> <what failed>
//
// Only "known" lines suppress anything, and only the exact witness they name.
func LoadKnown() ([]Known, error) {
	f, err := os.Open(filepath.Join(VerifRoot(), "KNOWN_FINDINGS.txt"))
	if err != nil {
		if os.IsNotExist(err) {
			return nil, nil
		}
		return nil, err
	}
	defer f.Close()
	var out []Known
	sc := bufio.NewScanner(f)
	sc.Buffer(make([]byte, 1<<20), 1<<20)
	for sc.Scan() {
		line := strings.TrimSpace(sc.Text())
		if line == "" || strings.HasPrefix(line, "#") {
			continue
		}
		var k Known
		switch {
		case strings.HasPrefix(line, "known:"):
			k.Status = "known"
			line = strings.TrimSpace(strings.TrimPrefix(line, "known:"))
		case strings.HasPrefix(line, "fixed:"):
			k.Status = "fixed"
			line = strings.TrimSpace(strings.TrimPrefix(line, "fixed:"))
		default:
			return nil, fmt.Errorf("KNOWN_FINDINGS.txt: unrecognised line %q", line)
		}
		fs := strings.Fields(line)
		rest := []string{}
		for i, w := range fs {
			switch {
			case i == 0 && strings.HasPrefix(w, "property="):
				k.Property = strings.TrimPrefix(w, "property=")
			case i == 1 && k.Status == "known" && strings.HasPrefix(w, "witness="):
				k.Witness = strings.TrimPrefix(w, "witness=")
			case i == 1 && k.Status == "fixed":
				k.Commit = w
			default:
				rest = append(rest, w)
			}
		}
		k.What = strings.Join(rest, " ")
		if k.Property == "" || (k.Status == "known" && k.Witness == "") {
			return nil, fmt.Errorf("KNOWN_FINDINGS.txt: malformed line %q", line)
		}
		out = append(out, k)
	}
	return out, sc.Err()
}

type Violation struct {
	Sig    string            // witness signature (stable across runs for the same failing input)
	What   string            // one-line description
	Files  map[string]string // replay bundle: name -> content
	Replay string            // path written
}

// Run accumulates what one check execution observed.
type Run struct {
	Prop  string
	Tier  string
	SeedV int64
	Level string

	mu        sync.Mutex
	start     time.Time
	evals     int64
	distinct  map[string]struct{}
	distinctN int64
	samples   []any
	maxSample int
	extra     map[string]any
	counters  map[string]int64
	assume    []string
	rule      string
	viol      []Violation
	violSeen  map[string]bool
	knownHit  map[string]bool
	known     []Known
	inconcl   []string
	exhaust   *bool
}

func NewRun(prop, tier, level string) *Run {
	k, err := LoadKnown()
	r := &Run{Prop: prop, Tier: tier, SeedV: Seed(), Level: level, start: time.Now(),
		distinct: map[string]struct{}{}, extra: map[string]any{}, counters: map[string]int64{},
		violSeen: map[string]bool{}, knownHit: map[string]bool{}, known: k, maxSample: 6}
	if err != nil {
		r.Inconclusive("known-findings-unreadable: " + err.Error())
	}
	return r
}

func (r *Run) Rule(s string)       { r.rule = s }
func (r *Run) Assume(s ...string)  { r.assume = append(r.assume, s...) }
func (r *Run) Exhaustive(b bool)   { r.exhaust = &b }
func (r *Run) MaxSamples(n int)    { r.maxSample = n }
func (r *Run) Set(k string, v any) { r.mu.Lock(); r.extra[k] = v; r.mu.Unlock() }
func (r *Run) Count(k string, n int64) {
	r.mu.Lock()
	r.counters[k] += n
	r.mu.Unlock()
}
func (r *Run) Counter(k string) int64 { r.mu.Lock(); defer r.mu.Unlock(); return r.counters[k] }

// Eval records one explored case. key identifies the case for distinctness;
// nontrivial says whether it counts under the check's stated rule.
func (r *Run) Eval(key string, nontrivial bool) {
	r.mu.Lock()
	r.evals++
	if nontrivial {
		r.distinct[key] = struct{}{}
	}
	r.mu.Unlock()
}

// EvalN records n explored cases of which d are distinct and non-trivial, as
// measured by a child harness (which reports its own distinct set size).
func (r *Run) EvalN(n, d int64, keyPrefix string) {
	r.mu.Lock()
	r.evals += n
	r.distinctN += d
	_ = keyPrefix
	r.mu.Unlock()
}

func (r *Run) Sample(v any) {
	r.mu.Lock()
	if len(r.samples) < r.maxSample {
		r.samples = append(r.samples, v)
	}
	r.mu.Unlock()
}

func (r *Run) Inconclusive(reason string) {
	r.mu.Lock()
	r.inconcl = append(r.inconcl, reason)
	r.mu.Unlock()
}

// Violate records a violation with witness signature sig. Known findings are
// matched by (property, witness) and reported as KNOWN-FINDING instead.
func (r *Run) Violate(sig, what string, files map[string]string) {
	// a full disk or exhausted memory while building throw-away Go code decides nothing about the
	// property (C16 injects such errors into fc on purpose and judges them itself)
	if m := envTroubleRe.FindString(what); m != "" && r.Prop != "C16" {
		r.Inconclusive("the environment failed, not the code (" + m + "): " + trunc(what, 240))
		return
	}
	r.mu.Lock()
	defer r.mu.Unlock()
	for _, k := range r.known {
		if k.Status == "known" && k.Property == r.Prop && k.Witness == sig {
			if !r.knownHit[sig] {
				r.knownHit[sig] = true
			}
			return
		}
	}
	if r.violSeen[sig] {
		return
	}
	r.violSeen[sig] = true
	r.viol = append(r.viol, Violation{Sig: sig, What: what, Files: files})
}

func (r *Run) NumViolations() int { r.mu.Lock(); defer r.mu.Unlock(); return len(r.viol) }

var envTroubleRe = regexp.MustCompile(`no space left on device|cannot allocate memory|too many open files|resource temporarily unavailable`)

func trunc(s string, n int) string {
	if len(s) <= n {
		return s
	}
	return s[:n] + "…"
}

// Finish writes evidence, prints protocol lines and returns the exit code.
func (r *Run) Finish() int {
	r.mu.Lock()
	defer r.mu.Unlock()
	root := VerifRoot()
	// known findings observed
	var khit []string
	for _, k := range r.known {
		if k.Status == "known" && k.Property == r.Prop && r.knownHit[k.Witness] {
			fmt.Printf("KNOWN-FINDING: property=%s %s [witness=%s]\n", r.Prop, k.What, k.Witness)
			khit = append(khit, k.Witness)
		}
	}
	// replay bundles (those of earlier runs of this property are stale: remove them)
	os.RemoveAll(filepath.Join(root, "replays", r.Prop))
	// bundles contain .go files: keep them out of the verif module
	os.MkdirAll(filepath.Join(root, "replays"), 0o755)
	os.WriteFile(filepath.Join(root, "replays", "go.mod"), []byte("module replays\n"), 0o644)
	maxPrint := 25
	for i := range r.viol {
		v := &r.viol[i]
		if i >= 60 {
			break // bundles for the first 60 distinct witnesses only
		}
		dir := filepath.Join(root, "replays", r.Prop, sanitize(v.Sig))
		os.MkdirAll(dir, 0o755)
		meta := map[string]any{"property": r.Prop, "sig": v.Sig, "what": v.What, "seed": r.SeedV, "tier": r.Tier}
		mb, _ := json.MarshalIndent(meta, "", " ")
		os.WriteFile(filepath.Join(dir, "meta.json"), mb, 0o644)
		for name, content := range v.Files {
			p := filepath.Join(dir, name)
			os.MkdirAll(filepath.Dir(p), 0o755)
			os.WriteFile(p, []byte(content), 0o644)
		}
		v.Replay = dir
		if i < maxPrint {
			fmt.Printf("VIOLATION property=%s replay=%s  # %s\n", r.Prop, dir, trunc(strings.ReplaceAll(v.What, "\n", " | "), 300))
		}
	}
	if len(r.viol) > maxPrint {
		fmt.Printf("# ... %d more violations (bundles under %s)\n", len(r.viol)-maxPrint, filepath.Join(root, "replays", r.Prop))
	}
	cov := map[string]any{}
	for k, v := range r.extra {
		cov[k] = v
	}
	if len(r.counters) > 0 {
		keys := make([]string, 0, len(r.counters))
		for k := range r.counters {
			keys = append(keys, k)
		}
		sort.Strings(keys)
		obs := map[string]int64{}
		for _, k := range keys {
			obs[k] = r.counters[k]
		}
		cov["observed"] = obs
	}
	cov["evaluations"] = r.evals
	cov["distinct_nontrivial"] = int64(len(r.distinct)) + r.distinctN
	cov["rule"] = r.rule
	if r.samples == nil {
		r.samples = []any{}
	}
	cov["samples"] = r.samples
	if r.exhaust != nil {
		cov["exhaustive"] = *r.exhaust
	}
	if len(khit) > 0 {
		cov["known_findings_observed"] = khit
	}
	if len(r.inconcl) > 0 {
		cov["inconclusive"] = r.inconcl
	}
	ev := map[string]any{
		"property_id": r.Prop, "tier": r.Tier, "seed": r.SeedV, "level": r.Level,
		"coverage": cov, "assumptions": r.assume,
		"wall_s":     float64(int(time.Since(r.start).Seconds()*100)) / 100,
		"violations": len(r.viol),
	}
	if r.assume == nil {
		ev["assumptions"] = []string{}
	}
	b, _ := json.MarshalIndent(ev, "", " ")
	os.MkdirAll(filepath.Join(root, "evidence"), 0o755)
	os.WriteFile(filepath.Join(root, "evidence", r.Prop+".json"), append(b, '\n'), 0o644)

	if len(r.viol) > 0 {
		fmt.Printf("RESULT property=%s violated: %d distinct witnesses, %d evaluations\n", r.Prop, len(r.viol), r.evals)
		return 1
	}
	if len(r.inconcl) > 0 {
		for _, s := range r.inconcl {
			fmt.Printf("INCONCLUSIVE property=%s reason=%s\n", r.Prop, strings.ReplaceAll(s, "\n", " | "))
		}
		return 2
	}
	fmt.Printf("RESULT property=%s held on %d evaluations (%d distinct non-trivial), tier=%s seed=%d, %.1fs\n",
		r.Prop, r.evals, int64(len(r.distinct))+r.distinctN, r.Tier, r.SeedV, time.Since(r.start).Seconds())
	return 0
}

func sanitize(s string) string {
	var b strings.Builder
	for _, c := range s {
		switch {
		case c >= 'a' && c <= 'z', c >= 'A' && c <= 'Z', c >= '0' && c <= '9', c == '-', c == '_', c == '.':
			b.WriteRune(c)
		default:
			b.WriteByte('_')
		}
	}
	out := b.String()
	if len(out) > 80 {
		out = out[:60]
	}
	if out != s {
		out += "_" + Hash(s)
	}
	if out == "" {
		out = "w"
	}
	return out
}

// ---------------------------------------------------------------------------
// PRNG: splitmix64, splittable by label so that sub-generators are independent
// of how many values their siblings consumed.

type Rand struct{ s uint64 }

func NewRand(seed int64, label string) *Rand {
	h := sha256.Sum256([]byte(fmt.Sprintf("%d/%s", seed, label)))
	var s uint64
	for i := 0; i < 8; i++ {
		s = s<<8 | uint64(h[i])
	}
	return &Rand{s: s}
}

func (r *Rand) Split(label string) *Rand {
	h := sha256.Sum256([]byte(fmt.Sprintf("%d/%s", r.s, label)))
	var s uint64
	for i := 0; i < 8; i++ {
		s = s<<8 | uint64(h[i])
	}
	return &Rand{s: s}
}

func (r *Rand) U64() uint64 {
	r.s += 0x9e3779b97f4a7c15
	z := r.s
	z = (z ^ (z >> 30)) * 0xbf58476d1ce4e5b9
	z = (z ^ (z >> 27)) * 0x94d049bb133111eb
	return z ^ (z >> 31)
}

func (r *Rand) Intn(n int) int {
	if n <= 0 {
		return 0
	}
	return int(r.U64() % uint64(n))
}

func (r *Rand) Bool() bool            { return r.U64()&1 == 1 }
func (r *Rand) Chance(p float64) bool { return float64(r.U64()>>11)/float64(1<<53) < p }
func (r *Rand) Range(lo, hi int) int  { return lo + r.Intn(hi-lo+1) }

func Pick[T any](r *Rand, xs []T) T { return xs[r.Intn(len(xs))] }

func Shuffle[T any](r *Rand, xs []T) {
	for i := len(xs) - 1; i > 0; i-- {
		j := r.Intn(i + 1)
		xs[i], xs[j] = xs[j], xs[i]
	}
}

// Weighted picks an index according to weights.
func (r *Rand) Weighted(w []int) int {
	t := 0
	for _, x := range w {
		t += x
	}
	if t <= 0 {
		return 0
	}
	k := r.Intn(t)
	for i, x := range w {
		if k < x {
			return i
		}
		k -= x
	}
	return len(w) - 1
}
