// Package hm is an independent Hindley-Milner inference over the fo syntax tree,
// restricted to the constructs for which Folang's documentation promises
// inference. It shares no code with fc. Used as the oracle of C02.
package hm

import (
	"fmt"
	"strings"

	"verif/internal/fo"
)

type Ty struct {
	Con  string // "" for a variable
	Args []*Ty
	id   int
	ref  *Ty // binding of a variable
}

func (t *Ty) find() *Ty {
	for t.Con == "" && t.ref != nil {
		t = t.ref
	}
	return t
}

type Inferer struct {
	next    int
	recs    map[string]*fo.RecordDef
	unions  map[string]*fo.UnionDef
	caseOf  map[string]*fo.UnionDef
	globals map[string]*Scheme
}

type Scheme struct {
	Vars []*Ty
	T    *Ty
}

func (in *Inferer) fresh() *Ty { in.next++; return &Ty{id: in.next} }

func con(name string, args ...*Ty) *Ty { return &Ty{Con: name, Args: args} }

var (
	tInt    = con("int")
	tString = con("string")
	tBool   = con("bool")
	tUnit   = con("unit")
)

type Error struct{ Msg string }

func (e *Error) Error() string { return e.Msg }

func fail(f string, a ...any) { panic(&Error{fmt.Sprintf(f, a...)}) }

func (in *Inferer) occurs(v, t *Ty) bool {
	t = t.find()
	if t == v {
		return true
	}
	for _, a := range t.Args {
		if in.occurs(v, a) {
			return true
		}
	}
	return false
}

func (in *Inferer) unify(a, b *Ty) {
	a, b = a.find(), b.find()
	if a == b {
		return
	}
	if a.Con == "" {
		if in.occurs(a, b) {
			fail("occurs check")
		}
		a.ref = b
		return
	}
	if b.Con == "" {
		in.unify(b, a)
		return
	}
	if a.Con != b.Con || len(a.Args) != len(b.Args) {
		fail("cannot unify %s with %s", Show(a), Show(b))
	}
	for i := range a.Args {
		in.unify(a.Args[i], b.Args[i])
	}
}

func Show(t *Ty) string {
	t = t.find()
	if t.Con == "" {
		return fmt.Sprintf("'%d", t.id)
	}
	if len(t.Args) == 0 {
		return t.Con
	}
	var ps []string
	for _, a := range t.Args {
		ps = append(ps, Show(a))
	}
	return t.Con + "(" + strings.Join(ps, ",") + ")"
}

// fromFo converts an annotation; type variables of generic signatures are mapped through tv.
func (in *Inferer) fromFo(t *fo.Type, tv map[string]*Ty) *Ty {
	switch t.K {
	case fo.KInt:
		return tInt
	case fo.KString:
		return tString
	case fo.KBool:
		return tBool
	case fo.KUnit:
		return tUnit
	case fo.KSlice:
		return con("slice", in.fromFo(t.Args[0], tv))
	case fo.KTuple:
		var as []*Ty
		for _, a := range t.Args {
			as = append(as, in.fromFo(a, tv))
		}
		return con(fmt.Sprintf("tuple%d", len(as)), as...)
	case fo.KFunc:
		var as []*Ty
		for _, a := range t.Args {
			as = append(as, in.fromFo(a, tv))
		}
		return con("func", as...)
	case fo.KRec:
		return con("rec:" + t.Name)
	case fo.KUnion:
		return con("uni:" + t.Name)
	case fo.KVar:
		if v, ok := tv[t.Name]; ok {
			return v
		}
		v := in.fresh()
		tv[t.Name] = v
		return v
	}
	fail("fromFo: %v", t)
	return nil
}

func (in *Inferer) instantiate(s *Scheme) *Ty {
	if len(s.Vars) == 0 {
		return s.T
	}
	m := map[*Ty]*Ty{}
	for _, v := range s.Vars {
		m[v] = in.fresh()
	}
	var cp func(t *Ty) *Ty
	cp = func(t *Ty) *Ty {
		t = t.find()
		if t.Con == "" {
			if n, ok := m[t]; ok {
				return n
			}
			return t
		}
		if len(t.Args) == 0 {
			return t
		}
		n := &Ty{Con: t.Con}
		for _, a := range t.Args {
			n.Args = append(n.Args, cp(a))
		}
		return n
	}
	return cp(s.T)
}

// library signatures (from pkg/pkg_all.foi), written as Folang types with type variables
var libSigs = map[string]string{}

func lib(in *Inferer, name string) *Scheme {
	a, b, c := in.fresh(), in.fresh(), in.fresh()
	sl := func(t *Ty) *Ty { return con("slice", t) }
	fn := func(ts ...*Ty) *Ty { return con("func", ts...) }
	var t *Ty
	switch name {
	case "frt.Fst":
		t = fn(con("tuple2", a, b), a)
	case "frt.Snd":
		t = fn(con("tuple2", a, b), b)
	case "frt.Sprintf1":
		t = fn(tString, a, tString)
	case "frt.Println":
		t = fn(tString, tUnit)
	case "slice.New":
		t = fn(tUnit, sl(a))
	case "slice.Length", "slice.Len":
		t = fn(sl(a), tInt)
	case "slice.Item":
		t = fn(tInt, sl(a), a)
	case "slice.IsEmpty", "slice.IsNotEmpty":
		t = fn(sl(a), tBool)
	case "slice.Last", "slice.Head":
		t = fn(sl(a), a)
	case "slice.Tail", "slice.PopLast", "slice.Sort", "slice.Distinct":
		t = fn(sl(a), sl(a))
	case "slice.PushLast", "slice.PushHead":
		t = fn(a, sl(a), sl(a))
	case "slice.Append":
		t = fn(sl(a), sl(a), sl(a))
	case "slice.Take", "slice.Skip":
		t = fn(tInt, sl(a), sl(a))
	case "slice.Map":
		t = fn(fn(a, b), sl(a), sl(b))
	case "slice.Filter":
		t = fn(fn(a, tBool), sl(a), sl(a))
	case "slice.Zip":
		t = fn(sl(a), sl(b), sl(con("tuple2", a, b)))
	case "slice.Concat":
		t = fn(sl(sl(a)), sl(a))
	case "strings.Concat":
		t = fn(tString, sl(tString), tString)
	case "strings.Length":
		t = fn(tString, tInt)
	case "strings.AppendTail", "strings.AppendHead", "strings.TrimSuffix":
		t = fn(tString, tString, tString)
	case "strings.HasSuffix", "strings.HasPrefix":
		t = fn(tString, tString, tBool)
	case "strings.EncloseWith":
		t = fn(tString, tString, tString, tString)
	default:
		return nil
	}
	_ = c
	return &Scheme{Vars: []*Ty{a, b, c}, T: t}
}

type env struct {
	name string
	t    *Ty
	next *env
}

func (e *env) lookup(n string) *Ty {
	for x := e; x != nil; x = x.next {
		if x.name == n {
			return x.t
		}
	}
	return nil
}

func New(p *fo.Program) *Inferer {
	in := &Inferer{recs: map[string]*fo.RecordDef{}, unions: map[string]*fo.UnionDef{}, caseOf: map[string]*fo.UnionDef{}, globals: map[string]*Scheme{}}
	for _, d := range p.Decls {
		switch d := d.(type) {
		case *fo.RecordDef:
			in.recs[d.Name] = d
		case *fo.UnionDef:
			in.unions[d.Name] = d
			for _, c := range d.Cases {
				in.caseOf[c.Name] = d
			}
		}
	}
	return in
}

// Declare registers an earlier top-level function or variable with its known type.
func (in *Inferer) Declare(name string, s *Scheme) { in.globals[name] = s }

// InferFunc infers the principal type of f given the annotations that are kept.
// It returns the generalised scheme.
func (in *Inferer) InferFunc(f *fo.FuncDef) (s *Scheme, err error) {
	defer func() {
		if r := recover(); r != nil {
			if e, ok := r.(*Error); ok {
				err = e
				return
			}
			panic(r)
		}
	}()
	var e *env
	var ptypes []*Ty
	tv := map[string]*Ty{}
	if len(f.Params) == 0 {
		ptypes = append(ptypes, tUnit)
	}
	for _, p := range f.Params {
		var t *Ty
		if p.NoAnnot {
			t = in.fresh()
		} else {
			t = in.fromFo(p.T, tv)
		}
		ptypes = append(ptypes, t)
		e = &env{p.Name, t, e}
	}
	res := in.block(f.Body, e)
	if f.AnnotRet {
		in.unify(res, in.fromFo(f.Ret, tv))
	}
	ft := con("func", append(ptypes, res)...)
	// generalise: variables in order of first occurrence (parameters, then result)
	var vars []*Ty
	seen := map[*Ty]bool{}
	var walk func(t *Ty)
	walk = func(t *Ty) {
		t = t.find()
		if t.Con == "" {
			if !seen[t] {
				seen[t] = true
				vars = append(vars, t)
			}
			return
		}
		for _, a := range t.Args {
			walk(a)
		}
	}
	walk(ft)
	return &Scheme{Vars: vars, T: ft}, nil
}

func (in *Inferer) block(b *fo.Block, e *env) *Ty {
	for _, s := range b.Stmts {
		switch s := s.(type) {
		case *fo.Let:
			e = &env{s.Name, in.expr(s.E, e), e}
		case *fo.LetDestr:
			t := in.expr(s.E, e)
			var parts []*Ty
			for range s.Names {
				parts = append(parts, in.fresh())
			}
			in.unify(t, con(fmt.Sprintf("tuple%d", len(parts)), parts...))
			for i, n := range s.Names {
				if n != "_" {
					e = &env{n, parts[i], e}
				}
			}
		case *fo.ExprStmt:
			in.expr(s.E, e)
		default:
			fail("statement %T is outside the C02 subset", s)
		}
	}
	return in.expr(b.Result, e)
}

func (in *Inferer) varType(name string, e *env) *Ty {
	if t := e.lookup(name); t != nil {
		return t
	}
	if s, ok := in.globals[name]; ok {
		return in.instantiate(s)
	}
	if s := lib(in, name); s != nil {
		return in.instantiate(s)
	}
	fail("unknown name %s", name)
	return nil
}

func (in *Inferer) apply(ft *Ty, args []*Ty) *Ty {
	ft = ft.find()
	if ft.Con == "func" {
		params := ft.Args[:len(ft.Args)-1]
		res := ft.Args[len(ft.Args)-1]
		if len(args) > len(params) {
			fail("too many arguments")
		}
		for i, a := range args {
			in.unify(params[i], a)
		}
		if len(args) == len(params) {
			return res
		}
		return con("func", append(append([]*Ty{}, params[len(args):]...), res)...)
	}
	// an unknown function applied once: it must be a function of exactly these arguments
	res := in.fresh()
	in.unify(ft, con("func", append(append([]*Ty{}, args...), res)...))
	return res
}

func (in *Inferer) expr(x fo.Expr, e *env) *Ty {
	switch x := x.(type) {
	case *fo.IntLit:
		return tInt
	case *fo.StrLit, *fo.RawLit:
		return tString
	case *fo.BoolLit:
		return tBool
	case *fo.UnitLit:
		return tUnit
	case *fo.Var:
		return in.varType(x.Name, e)
	case *fo.BinOp:
		l, r := in.expr(x.L, e), in.expr(x.R, e)
		in.unify(l, r)
		switch x.Op {
		case "+", "-", "*", "/":
			return l
		}
		return tBool
	case *fo.Not:
		in.unify(in.expr(x.E, e), tBool)
		return tBool
	case *fo.If:
		in.unify(in.expr(x.Cond, e), tBool)
		t := in.block(x.Then, e)
		for _, el := range x.Elifs {
			in.unify(in.expr(el.Cond, e), tBool)
			in.unify(t, in.block(el.Body, e))
		}
		if x.Else != nil {
			in.unify(t, in.block(x.Else, e))
		}
		return t
	case *fo.TupleLit:
		var as []*Ty
		for _, el := range x.Elems {
			as = append(as, in.expr(el, e))
		}
		return con(fmt.Sprintf("tuple%d", len(as)), as...)
	case *fo.SliceLit:
		t := in.fresh()
		for _, el := range x.Elems {
			in.unify(t, in.expr(el, e))
		}
		return con("slice", t)
	case *fo.RecLit:
		tv := map[string]*Ty{}
		for i, f := range x.Rec.Fields {
			in.unify(in.expr(x.Fields[i], e), in.fromFo(f.T, tv))
		}
		if x.Rec.Generic {
			// a generic record declared with one type parameter T: a fresh instantiation per literal
			if _, ok := tv["T"]; !ok {
				tv["T"] = in.fresh()
			}
			return con("rec:"+x.Rec.Name, tv["T"])
		}
		return con("rec:" + x.Rec.Name)
	case *fo.Ctor:
		tv := map[string]*Ty{}
		if x.Arg != nil {
			in.unify(in.expr(x.Arg, e), in.fromFo(x.Union.Cases[x.Case].Payload, tv))
		}
		if x.Union.Generic {
			if _, ok := tv["T"]; !ok {
				tv["T"] = in.fresh()
			}
			return con("uni:"+x.Union.Name, tv["T"])
		}
		return con("uni:" + x.Union.Name)
	case *fo.Call:
		ft := in.expr(x.Fn, e)
		if len(x.TArgs) > 0 {
			// explicit type arguments of a library function, in the order the .foi declares its
			// type parameters (which is the order of the variables of lib's scheme)
			v, ok := x.Fn.(*fo.Var)
			var s *Scheme
			if ok {
				s = lib(in, v.Name)
			}
			if s == nil || len(x.TArgs) > len(s.Vars) {
				fail("explicit type arguments outside the C02 subset")
			}
			ft = s.T
			for i, ta := range x.TArgs {
				in.unify(s.Vars[i], in.fromFo(ta, map[string]*Ty{}))
			}
		}
		var as []*Ty
		for _, a := range x.Args {
			as = append(as, in.expr(a, e))
		}
		if len(as) == 0 {
			return ft
		}
		return in.apply(ft, as)
	case *fo.Pipe:
		l := in.expr(x.L, e)
		f := in.expr(x.R, e)
		return in.apply(f, []*Ty{l})
	case *fo.FieldAcc:
		t := in.expr(x.E, e).find()
		if strings.HasPrefix(t.Con, "rec:") {
			rd := in.recs[strings.TrimPrefix(t.Con, "rec:")]
			for _, f := range rd.Fields {
				if f.Name == x.Name {
					return in.fromFo(f.T, map[string]*Ty{})
				}
			}
		}
		fail("field access on a value whose record type is not known")
	}
	fail("expression %T is outside the C02 subset", x)
	return nil
}

// GoSignature renders the scheme of a function as the Go signature fc is documented to emit.
func GoSignature(name string, params []string, s *Scheme) string {
	names := map[*Ty]string{}
	for i, v := range s.Vars {
		names[v.find()] = fmt.Sprintf("T%d", i)
	}
	var goT func(t *Ty) string
	goT = func(t *Ty) string {
		t = t.find()
		if t.Con == "" {
			return names[t]
		}
		switch {
		case t.Con == "int" || t.Con == "string" || t.Con == "bool":
			return t.Con
		case t.Con == "unit":
			return ""
		case t.Con == "slice":
			return "[]" + goT(t.Args[0])
		case strings.HasPrefix(t.Con, "tuple"):
			var ps []string
			for _, a := range t.Args {
				ps = append(ps, goT(a))
			}
			return fmt.Sprintf("frt.Tuple%d[%s]", len(t.Args), strings.Join(ps, ", "))
		case t.Con == "func":
			var ps []string
			for _, a := range t.Args[:len(t.Args)-1] {
				if a.find().Con != "unit" {
					ps = append(ps, goT(a))
				}
			}
			r := goT(t.Args[len(t.Args)-1])
			if r != "" {
				r = " " + r
			}
			return "func(" + strings.Join(ps, ", ") + ")" + r
		case strings.HasPrefix(t.Con, "rec:") || strings.HasPrefix(t.Con, "uni:"):
			n := t.Con[4:]
			if len(t.Args) > 0 {
				var ps []string
				for _, a := range t.Args {
					ps = append(ps, goT(a))
				}
				n += "[" + strings.Join(ps, ", ") + "]"
			}
			return n
		}
		return "?"
	}
	ft := s.T.find()
	var ps []string
	for i, p := range ft.Args[:len(ft.Args)-1] {
		if p.find().Con == "unit" && len(params) == 0 {
			continue
		}
		ps = append(ps, params[i]+" "+goT(p))
	}
	tp := ""
	if len(s.Vars) > 0 {
		var vs []string
		for i := range s.Vars {
			vs = append(vs, fmt.Sprintf("T%d any", i))
		}
		tp = "[" + strings.Join(vs, ", ") + "]"
	}
	r := goT(ft.Args[len(ft.Args)-1])
	if r != "" {
		r = " " + r
	}
	return "func " + name + tp + "(" + strings.Join(ps, ", ") + ")" + r
}

// Equal compares two schemes up to renaming of their variables.
func Equal(a, b *Scheme) bool {
	return GoSignature("f", []string{"a", "b", "c", "d", "e", "f", "g"}, a) == GoSignature("f", []string{"a", "b", "c", "d", "e", "f", "g"}, b)
}
