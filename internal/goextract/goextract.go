// Package goextract cuts an emitted Go file into its top-level declarations
// (go/parser on the raw, un-gofmt'ed text) and normalises compiler temporaries.
package goextract

import (
	"fmt"
	"go/ast"
	"go/parser"
	"go/printer"
	"go/token"
	"regexp"
	"strings"
)

type Decl struct {
	Key  string // func name, Recv.Method, type name, var name
	Kind string // func | method | type | var
	Text string // source text with _vN renumbered by first occurrence
	Raw  string
}

var tmpRe = regexp.MustCompile(`\b_v\d+\b`)

// Renumber replaces _vN temporaries by _t1, _t2, ... in order of first occurrence.
func Renumber(s string) string {
	m := map[string]string{}
	return tmpRe.ReplaceAllStringFunc(s, func(x string) string {
		if y, ok := m[x]; ok {
			return y
		}
		y := fmt.Sprintf("_t%d", len(m)+1)
		m[x] = y
		return y
	})
}

// EraseTemps drops the numbers of _vN temporaries altogether.
func EraseTemps(s string) string { return tmpRe.ReplaceAllString(s, "_v") }

var tRe = regexp.MustCompile(`\b_t\d+\b`)

// EraseRenumbered does the same on text already renumbered by Renumber.
func EraseRenumbered(s string) string { return tRe.ReplaceAllString(s, "_v") }

// Decls parses src and returns its declarations in order (imports skipped).
func Decls(src string) ([]Decl, error) {
	fset := token.NewFileSet()
	f, err := parser.ParseFile(fset, "gen.go", src, parser.SkipObjectResolution)
	if err != nil {
		return nil, err
	}
	text := func(n ast.Node) string {
		return src[fset.Position(n.Pos()).Offset:fset.Position(n.End()).Offset]
	}
	var out []Decl
	for _, d := range f.Decls {
		switch d := d.(type) {
		case *ast.FuncDecl:
			key, kind := d.Name.Name, "func"
			if d.Recv != nil && len(d.Recv.List) > 0 {
				kind = "method"
				key = typeName(d.Recv.List[0].Type) + "." + d.Name.Name
			}
			raw := text(d)
			out = append(out, Decl{Key: key, Kind: kind, Raw: raw, Text: Renumber(raw)})
		case *ast.GenDecl:
			if d.Tok == token.IMPORT {
				continue
			}
			for _, s := range d.Specs {
				switch s := s.(type) {
				case *ast.TypeSpec:
					raw := text(s)
					out = append(out, Decl{Key: s.Name.Name, Kind: "type", Raw: raw, Text: Renumber(raw)})
				case *ast.ValueSpec:
					raw := text(s)
					var names []string
					for _, n := range s.Names {
						names = append(names, n.Name)
					}
					out = append(out, Decl{Key: strings.Join(names, ","), Kind: "var", Raw: raw, Text: Renumber(raw)})
				}
			}
		}
	}
	return out, nil
}

func typeName(e ast.Expr) string {
	switch t := e.(type) {
	case *ast.Ident:
		return t.Name
	case *ast.StarExpr:
		return typeName(t.X)
	case *ast.IndexExpr:
		return typeName(t.X)
	case *ast.IndexListExpr:
		return typeName(t.X)
	}
	return "?"
}

// FuncSig returns the normalised signature text "func name[T0 any](a int) string" of a func decl.
func FuncSigs(src string) (map[string]string, error) {
	fset := token.NewFileSet()
	f, err := parser.ParseFile(fset, "gen.go", src, parser.SkipObjectResolution)
	if err != nil {
		return nil, err
	}
	out := map[string]string{}
	for _, d := range f.Decls {
		if fd, ok := d.(*ast.FuncDecl); ok && fd.Recv == nil {
			var b strings.Builder
			cp := *fd
			cp.Body = nil
			cp.Doc = nil
			printer.Fprint(&b, fset, &cp)
			out[fd.Name.Name] = strings.Join(strings.Fields(b.String()), " ")
		}
	}
	return out, nil
}

// TypeText renders the Go type expression of struct field / param etc. in normal form.
func NormType(expr string) (string, error) {
	e, err := parser.ParseExpr(expr)
	if err != nil {
		return "", err
	}
	var b strings.Builder
	printer.Fprint(&b, token.NewFileSet(), e)
	return strings.Join(strings.Fields(b.String()), " "), nil
}
