// Package gobatch compiles many emitted Go programs as packages of one module
// (linked against the scratch copy's pkg/*), runs them from one driver binary
// between BEGIN/END markers, and attributes compile errors, panics and deaths
// to the individual program.
package gobatch

import (
	"fmt"
	"os"
	"os/exec"
	"path/filepath"
	"regexp"
	"sort"
	"strings"

	"verif/internal/scratch"
)

type Prog struct {
	Name  string            // package name, also its directory (e.g. "p17")
	Files map[string]string // Go files; must declare `package <Name>` and define func Run()
}

type Result struct {
	CompileErr map[string]string // program -> compiler diagnostics
	Output     map[string]string // program -> stdout it produced
	Panic      map[string]string // program -> recovered panic text
	Died       map[string]string // program -> how the process died (fatal error, exit, CPU limit)
	BuildLog   string
	Inconcl    string // harness-level trouble (not attributable)
}

var pkgLineRe = regexp.MustCompile(`(?m)^(?:\./)?(p\d+)/[^:\s]+:\d+`)
var initPanicRe = regexp.MustCompile(`batch/(p\d+)\.init`)
var pkgHdrRe = regexp.MustCompile(`(?m)^# [^\s]*/(p\d+)\b`)

// Run builds and runs the programs. ws is a fresh workspace name inside env.
func Run(env *scratch.Env, ws string, progs []Prog, cpuSecPerBatch int) *Result {
	res := &Result{CompileErr: map[string]string{}, Output: map[string]string{}, Panic: map[string]string{}, Died: map[string]string{}}
	dir, err := env.Workspace(ws, "batch")
	if err != nil {
		res.Inconcl = err.Error()
		return res
	}
	for _, p := range progs {
		for n, c := range p.Files {
			fp := filepath.Join(dir, p.Name, n)
			os.MkdirAll(filepath.Dir(fp), 0o755)
			os.WriteFile(fp, []byte(c), 0o644)
		}
	}
	live := map[string]bool{}
	for _, p := range progs {
		live[p.Name] = true
	}
	bin := filepath.Join(dir, "driver.bin")
	for round := 0; round < 40; round++ {
		names := sortedKeys(live)
		if len(names) == 0 {
			return res
		}
		writeDriver(dir, names)
		cmd := exec.Command("go", "build", "-trimpath", "-tags", "verif", "-o", bin, ".")
		cmd.Dir = dir
		cmd.Env = scratch.GoEnv()
		out, err := cmd.CombinedOutput()
		if err == nil {
			break
		}
		res.BuildLog += string(out)
		bad := map[string]bool{}
		for _, m := range pkgLineRe.FindAllStringSubmatch(string(out), -1) {
			bad[m[1]] = true
		}
		for _, m := range pkgHdrRe.FindAllStringSubmatch(string(out), -1) {
			bad[m[1]] = true
		}
		if len(bad) == 0 {
			res.Inconcl = "go build failed without attributable package: " + tailS(string(out), 1500)
			return res
		}
		for b := range bad {
			if live[b] {
				res.CompileErr[b] = diagFor(string(out), b)
				delete(live, b)
			}
		}
		if round == 39 {
			res.Inconcl = "too many build rounds"
			return res
		}
	}
	names := sortedKeys(live)
	if len(names) == 0 {
		return res
	}
	run := scratch.Run(scratch.Cmd{Path: bin, Dir: dir, CPUSec: cpuSecPerBatch, WallSec: 900, MaxOut: 64 << 20})
	// a panic while initialising one package's top-level variables kills the driver
	// before any program runs: attribute it, drop that package and rebuild
	for round := 0; round < 20 && run.Exit != 0 && !strings.Contains(run.Stdout, "===BEGIN "); round++ {
		m := initPanicRe.FindStringSubmatch(run.Stderr)
		if m == nil || !live[m[1]] {
			break
		}
		res.Died[m[1]] = "panic while initialising top-level variables: " + tailS(firstLines(run.Stderr, 3), 400)
		delete(live, m[1])
		names = sortedKeys(live)
		if len(names) == 0 {
			return res
		}
		writeDriver(dir, names)
		cmd := exec.Command("go", "build", "-trimpath", "-tags", "verif", "-o", bin, ".")
		cmd.Dir = dir
		cmd.Env = scratch.GoEnv()
		if out, err := cmd.CombinedOutput(); err != nil {
			res.Inconcl = "rebuild after init panic failed: " + tailS(string(out), 800)
			return res
		}
		run = scratch.Run(scratch.Cmd{Path: bin, Dir: dir, CPUSec: cpuSecPerBatch, WallSec: 900, MaxOut: 64 << 20})
	}
	complete := parseOutput(run.Stdout, res)
	if run.WallOut {
		res.Inconcl = "driver wall-clock watchdog"
		return res
	}
	if run.Exit != 0 || len(complete) != len(names) {
		// some program killed the process: run the unfinished ones one per process
		for _, n := range names {
			if complete[n] {
				continue
			}
			delete(res.Output, n)
			one := scratch.Run(scratch.Cmd{Path: bin, Args: []string{n}, Dir: dir, CPUSec: 20, WallSec: 120, MaxOut: 16 << 20})
			c1 := parseOutput(one.Stdout, res)
			if !c1[n] {
				res.Died[n] = fmt.Sprintf("exit=%d signal=%s cpuLimit=%v stderr=%s", one.Exit, one.Signal, one.CPUOut, tailS(one.Stderr, 600))
			}
		}
	}
	return res
}

func parseOutput(stdout string, res *Result) map[string]bool {
	complete := map[string]bool{}
	cur := ""
	var buf strings.Builder
	for _, line := range strings.SplitAfter(stdout, "\n") {
		t := strings.TrimRight(line, "\n")
		switch {
		case strings.HasPrefix(t, "===BEGIN "):
			cur = strings.TrimPrefix(t, "===BEGIN ")
			buf.Reset()
		case strings.HasPrefix(t, "===PANIC ") && cur != "":
			res.Panic[cur] = strings.TrimPrefix(t, "===PANIC "+cur+" ")
		case strings.HasPrefix(t, "===END ") && cur != "":
			s := buf.String()
			// the marker is printed after a newline the driver adds
			s = strings.TrimSuffix(s, "\n")
			res.Output[cur] = s
			complete[cur] = true
			cur = ""
		default:
			if cur != "" {
				buf.WriteString(line)
			}
		}
	}
	if cur != "" {
		res.Output[cur] = buf.String()
	}
	return complete
}

func writeDriver(dir string, names []string) {
	var b strings.Builder
	b.WriteString("package main\n\nimport (\n\t\"fmt\"\n\t\"os\"\n")
	for _, n := range names {
		fmt.Fprintf(&b, "\t%s \"batch/%s\"\n", n, n)
	}
	b.WriteString(")\n\nfunc run(name string, f func()) {\n\tif len(os.Args) > 1 && os.Args[1] != name {\n\t\treturn\n\t}\n")
	b.WriteString("\tfmt.Printf(\"===BEGIN %s\\n\", name)\n\tdefer func() {\n\t\tif r := recover(); r != nil {\n\t\t\tfmt.Printf(\"\\n===PANIC %s %v\\n\", name, r)\n\t\t}\n\t\tfmt.Printf(\"\\n===END %s\\n\", name)\n\t}()\n\tf()\n}\n\nfunc main() {\n")
	for _, n := range names {
		fmt.Fprintf(&b, "\trun(%q, %s.Run)\n", n, n)
	}
	b.WriteString("}\n")
	os.WriteFile(filepath.Join(dir, "main.go"), []byte(b.String()), 0o644)
}

func diagFor(out, pkg string) string {
	var keep []string
	for _, l := range strings.Split(out, "\n") {
		if strings.Contains(l, pkg+"/") {
			keep = append(keep, l)
		}
	}
	s := strings.Join(keep, "\n")
	if len(s) > 2000 {
		s = s[:2000]
	}
	return s
}

func sortedKeys(m map[string]bool) []string {
	var out []string
	for k := range m {
		out = append(out, k)
	}
	sort.Slice(out, func(i, j int) bool {
		if len(out[i]) != len(out[j]) {
			return len(out[i]) < len(out[j])
		}
		return out[i] < out[j]
	})
	return out
}

func tailS(s string, n int) string {
	if len(s) <= n {
		return s
	}
	return "…" + s[len(s)-n:]
}

func firstLines(s string, n int) string {
	ls := strings.SplitN(s, "\n", n+1)
	if len(ls) > n {
		ls = ls[:n]
	}
	return strings.Join(ls, " | ")
}
