// Package harness builds the monitor programs under testdata/ inside the
// scratch copy (so they link against the real pkg/* of the tree under test)
// and folds their JSON-line reports into a core.Run.
package harness

import (
	"bufio"
	"embed"
	"encoding/json"
	"fmt"
	"io/fs"
	"os"
	"path/filepath"
	"strings"

	"verif/internal/core"
	"verif/internal/scratch"
)

//go:embed testdata
var src embed.FS

// Materialize copies testdata/<name> into a new workspace module of the scratch env.
func Materialize(env *scratch.Env, name string) (string, error) {
	ws, err := env.Workspace("h-"+name, "verifharness/"+name)
	if err != nil {
		return "", err
	}
	root := "testdata/" + name
	err = fs.WalkDir(src, root, func(p string, d fs.DirEntry, err error) error {
		if err != nil {
			return err
		}
		rel, _ := filepath.Rel(root, p)
		if d.IsDir() {
			return os.MkdirAll(filepath.Join(ws, rel), 0o755)
		}
		b, err := src.ReadFile(p)
		if err != nil {
			return err
		}
		return os.WriteFile(filepath.Join(ws, rel), b, 0o644)
	})
	return ws, err
}

// Build compiles the workspace's main package.
func Build(env *scratch.Env, ws, out string) error {
	return env.GoBuild(ws, out, "verif")
}

type Report struct {
	Done     bool
	Evals    int64
	Distinct int64
	Stats    map[string]any
	Samples  []any
	Viols    int
}

// Run executes the harness binary and folds its output into run.
// Every "viol" line becomes run.Violate(sig, what, files).
func Run(run *core.Run, bin string, args []string, cpuSec int, label string) (*Report, error) {
	res := scratch.Run(scratch.Cmd{Path: bin, Args: args, CPUSec: cpuSec, WallSec: 3600, MaxOut: 256 << 20})
	rep := &Report{Stats: map[string]any{}}
	sc := bufio.NewScanner(strings.NewReader(res.Stdout))
	sc.Buffer(make([]byte, 1<<20), 64<<20)
	for sc.Scan() {
		var m map[string]any
		if err := json.Unmarshal(sc.Bytes(), &m); err != nil {
			continue
		}
		switch m["t"] {
		case "viol":
			rep.Viols++
			sig, _ := m["sig"].(string)
			what, _ := m["what"].(string)
			d, _ := json.MarshalIndent(m["detail"], "", " ")
			run.Violate(sig, what+" :: "+oneLine(string(d), 400), map[string]string{
				"detail.json": string(d) + "\n",
				"replay.txt":  fmt.Sprintf("harness=%s args=%s seed=%d\n", label, strings.Join(args, " "), run.SeedV),
			})
		case "stat":
			k, _ := m["k"].(string)
			rep.Stats[k] = m["v"]
		case "sample":
			rep.Samples = append(rep.Samples, m["v"])
		case "done":
			rep.Done = true
			if v, ok := m["evals"].(float64); ok {
				rep.Evals = int64(v)
			}
			if v, ok := m["distinct"].(float64); ok {
				rep.Distinct = int64(v)
			}
		}
	}
	if res.WallOut {
		run.Inconclusive(label + ": wall-clock watchdog fired")
		return rep, nil
	}
	if !rep.Done {
		// the monitor process died: CPU budget exhausted or a Go runtime fatal
		// error inside a library call (not recoverable in-process)
		tail := res.Stderr
		if len(tail) > 3000 {
			tail = tail[:3000]
		}
		what := fmt.Sprintf("%s: monitor process ended without completing (exit=%d signal=%s cpuLimit=%v): a library call did not return or died fatally", label, res.Exit, res.Signal, res.CPUOut)
		run.Violate("harness-died:"+label, what, map[string]string{"stderr.txt": tail, "replay.txt": fmt.Sprintf("harness=%s args=%s\n", label, strings.Join(args, " "))})
	}
	return rep, nil
}

func oneLine(s string, n int) string {
	s = strings.Join(strings.Fields(s), " ")
	if len(s) > n {
		s = s[:n] + "…"
	}
	return s
}
