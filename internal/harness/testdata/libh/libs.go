package main

// C14 monitors: dict vs association-list model, strings vs Go's strings with
// the pipeline argument order, buf vs concatenation, frt helpers.

import (
	"fmt"
	"os"
	"sort"
	gostrings "strings"

	"github.com/karino2/folang/pkg/buf"
	"github.com/karino2/folang/pkg/dict"
	"github.com/karino2/folang/pkg/frt"
	fstrings "github.com/karino2/folang/pkg/strings"
)

type libCtx struct {
	evals, distinct int64
	per             map[string]int64
	seen            map[string]bool
}

func (c *libCtx) ev(area, key string, nontrivial bool) {
	c.evals++
	c.per[area]++
	if nontrivial {
		k := area + "|" + key
		if !c.seen[k] {
			c.seen[k] = true
			c.distinct++
		}
	}
}

func libViol(area, what string, in, got, want any) {
	viol("lib:"+area+":"+what, area+": "+what, map[string]any{"input": fmt.Sprint(in), "got": fmt.Sprint(got), "want": fmt.Sprint(want)})
}

// ---- dict ------------------------------------------------------------------

type assoc[K comparable, V any] struct {
	keys []K
	vals []V
}

func (a *assoc[K, V]) find(k K) int {
	for i := range a.keys {
		if a.keys[i] == k {
			return i
		}
	}
	return -1
}
func (a *assoc[K, V]) add(k K, v V) {
	if i := a.find(k); i >= 0 {
		a.vals[i] = v
		return
	}
	a.keys = append(a.keys, k)
	a.vals = append(a.vals, v)
}

func multisetEq(a, b []string) bool {
	if len(a) != len(b) {
		return false
	}
	x := append([]string(nil), a...)
	y := append([]string(nil), b...)
	sort.Strings(x)
	sort.Strings(y)
	for i := range x {
		if x[i] != y[i] {
			return false
		}
	}
	return true
}

func dictHistory[K comparable](c *libCtx, r *rng, nOps int, keyOf func(int) K, label string) {
	d := dict.New[K, int]()
	m := &assoc[K, int]{}
	// a third of the histories start from ToDict of an empty (nil / zero-length) pair list
	switch r.intn(6) {
	case 0:
		d = dict.ToDict[K, int](nil)
	case 1:
		d = dict.ToDict(make([]frt.Tuple2[K, int], 0, 4))
	}
	nk := 2 + r.intn(7)
	var log []string
	fail := func(what string, got, want any) {
		libViol("dict."+what, "disagrees with the finite-map model", gostrings.Join(log, "; "), got, want)
	}
	hkey := label
	for i := 0; i < nOps; i++ {
		k := keyOf(r.intn(nk))
		op := r.intn(10)
		hkey += fmt.Sprint(op, k, ";")
		p := call(func() {
			switch op {
			case 0, 1, 2:
				v := i + 1 // unique value per write: a read identifies the write it saw
				log = append(log, fmt.Sprintf("Add %v %d", k, v))
				dict.Add(d, k, v)
				m.add(k, v)
			case 3:
				log = append(log, fmt.Sprintf("TryFind %v", k))
				g := dict.TryFind(d, k)
				j := m.find(k)
				if j >= 0 {
					if !g.E1 || g.E0 != m.vals[j] {
						fail("TryFind", g, fmt.Sprint(m.vals[j], true))
					}
				} else if g.E1 || g.E0 != 0 {
					fail("TryFind", g, "(0,false)")
				}
			case 4:
				log = append(log, fmt.Sprintf("ContainsKey %v", k))
				if g := dict.ContainsKey(d, k); g != (m.find(k) >= 0) {
					fail("ContainsKey", g, m.find(k) >= 0)
				}
			case 5:
				log = append(log, fmt.Sprintf("Item %v", k))
				if j := m.find(k); j >= 0 {
					if g := dict.Item(d, k); g != m.vals[j] {
						fail("Item", g, m.vals[j])
					}
				}
			case 6:
				log = append(log, "Keys")
				var g, w []string
				for _, x := range dict.Keys(d) {
					g = append(g, fmt.Sprint(x))
				}
				for _, x := range m.keys {
					w = append(w, fmt.Sprint(x))
				}
				if !multisetEq(g, w) {
					fail("Keys", g, w)
				}
			case 7:
				log = append(log, "Values")
				var g, w []string
				for _, x := range dict.Values(d) {
					g = append(g, fmt.Sprint(x))
				}
				for _, x := range m.vals {
					w = append(w, fmt.Sprint(x))
				}
				if !multisetEq(g, w) {
					fail("Values", g, w)
				}
			case 8:
				log = append(log, "KVs")
				var g, w []string
				for _, x := range dict.KVs(d) {
					g = append(g, fmt.Sprint(x.E0, "=", x.E1))
				}
				for j := range m.keys {
					w = append(w, fmt.Sprint(m.keys[j], "=", m.vals[j]))
				}
				if !multisetEq(g, w) {
					fail("KVs", g, w)
				}
			case 9:
				// rebuild through ToDict from a pair list with duplicates: last value per key wins
				log = append(log, "ToDict(pairs)")
				var pairs []frt.Tuple2[K, int]
				m2 := &assoc[K, int]{}
				np := r.intn(8)
				for q := 0; q < np; q++ {
					kk := keyOf(r.intn(nk))
					vv := 1000*i + q
					pairs = append(pairs, frt.NewTuple2(kk, vv))
					m2.add(kk, vv)
				}
				d2 := dict.ToDict(pairs)
				var g, w []string
				for _, x := range dict.KVs(d2) {
					g = append(g, fmt.Sprint(x.E0, "=", x.E1))
				}
				for j := range m2.keys {
					w = append(w, fmt.Sprint(m2.keys[j], "=", m2.vals[j]))
				}
				if !multisetEq(g, w) {
					libViol("dict.ToDict", "does not keep the last value per key", fmt.Sprint(pairs), g, w)
				}
				// every other time the history goes on with the rebuilt dictionary (a dictionary made by
				// ToDict - from an empty list too - is a dictionary like any other: written to, read, listed)
				if r.intn(2) == 0 {
					log = append(log, fmt.Sprintf("(continue on the result of ToDict of %d pairs)", np))
					d, m = d2, m2
				}
			}
		})
		if p != nil {
			fail("(panic)", p, "no panic")
		}
	}
	c.ev("dict", hkey, len(m.keys) >= 2)
}

// ---- strings ---------------------------------------------------------------

func checkStrings(c *libCtx) {
	ss := []string{"", "a", "ab", "a,b", ",a", "a,", ",", ",,", "a,,b", ",a,,b,", "héllo", "日本,語", "ab,ab", "abab", "x.fo", ".fo", "fo", "a b  c", "\n", "a\nb"}
	seps := []string{",", "", ",,", "ab", ".fo", "a", "語", " ", "\n"}
	eqStrs := func(a, b []string) bool {
		if len(a) != len(b) {
			return false
		}
		for i := range a {
			if a[i] != b[i] {
				return false
			}
		}
		return true
	}
	for _, s := range ss {
		in := fmt.Sprintf("%q", s)
		c.ev("strings", "Length"+in, s != "")
		if g := fstrings.Length(s); g != len(s) {
			libViol("strings.Length", "is not the byte length", in, g, len(s))
		}
		c.ev("strings", "IsEmpty"+in, true)
		if g := fstrings.IsEmpty(s); g != (s == "") {
			libViol("strings.IsEmpty", "wrong", in, g, s == "")
		}
		if g := fstrings.IsNotEmpty(s); g != (s != "") {
			libViol("strings.IsNotEmpty", "wrong", in, g, s != "")
		}
		for _, p := range seps {
			in2 := fmt.Sprintf("%q %q", p, s)
			nt := s != "" && p != ""
			p2 := call(func() {
				c.ev("strings", "HasPrefix"+in2, nt)
				if g := fstrings.HasPrefix(p, s); g != gostrings.HasPrefix(s, p) {
					libViol("strings.HasPrefix", "HasPrefix p s must test that s starts with p", in2, g, gostrings.HasPrefix(s, p))
				}
				c.ev("strings", "HasSuffix"+in2, nt)
				if g := fstrings.HasSuffix(p, s); g != gostrings.HasSuffix(s, p) {
					libViol("strings.HasSuffix", "HasSuffix suf s must test that s ends with suf", in2, g, gostrings.HasSuffix(s, p))
				}
				c.ev("strings", "TrimSuffix"+in2, nt)
				if g := fstrings.TrimSuffix(p, s); g != gostrings.TrimSuffix(s, p) {
					libViol("strings.TrimSuffix", "TrimSuffix suf s must remove suf from the end of s", in2, g, gostrings.TrimSuffix(s, p))
				}
				c.ev("strings", "AppendTail"+in2, nt)
				if g := fstrings.AppendTail(p, s); g != s+p {
					libViol("strings.AppendTail", "AppendTail t s must be s followed by t", in2, g, s+p)
				}
				c.ev("strings", "AppendHead"+in2, nt)
				if g := fstrings.AppendHead(p, s); g != p+s {
					libViol("strings.AppendHead", "AppendHead h s must be h followed by s", in2, g, p+s)
				}
				c.ev("strings", "Split"+in2, nt)
				if g := fstrings.Split(p, s); !eqStrs(g, gostrings.Split(s, p)) {
					libViol("strings.Split", "Split sep s must equal Go's Split(s, sep)", in2, fmt.Sprintf("%q", g), fmt.Sprintf("%q", gostrings.Split(s, p)))
				}
				for _, n := range []int{-1, 0, 1, 2, 3} {
					c.ev("strings", fmt.Sprint("SplitN", n, in2), nt)
					if g := fstrings.SplitN(n, p, s); !eqStrs(g, gostrings.SplitN(s, p, n)) {
						libViol("strings.SplitN", "SplitN n sep s must equal Go's SplitN(s, sep, n)", fmt.Sprint(n, " ", in2), fmt.Sprintf("%q", g), fmt.Sprintf("%q", gostrings.SplitN(s, p, n)))
					}
				}
				for _, e := range []string{"", "]", "»»"} {
					c.ev("strings", "EncloseWith"+in2+e, nt)
					if g := fstrings.EncloseWith(p, e, s); g != p+s+e {
						libViol("strings.EncloseWith", "EncloseWith b e s must be b+s+e", fmt.Sprintf("%q %q %q", p, e, s), g, p+s+e)
					}
				}
			})
			if p2 != nil {
				libViol("strings", "panicked", in2, p2, "no panic")
			}
		}
	}
	// Concat sep xs
	lists := [][]string{nil, {}, {"a"}, {""}, {"a", "b"}, {"", ""}, {"a", "", "b"}, {"x,y", "z"}, {"日", "本"}}
	for _, sep := range seps {
		for _, xs := range lists {
			in := fmt.Sprintf("%q %q", sep, xs)
			c.ev("strings", "Concat"+in, len(xs) > 1)
			if g := fstrings.Concat(sep, xs); g != gostrings.Join(xs, sep) {
				libViol("strings.Concat", "Concat sep xs must join xs with sep", in, g, gostrings.Join(xs, sep))
			}
		}
	}
}

// ---- buf -------------------------------------------------------------------

func checkBuf(c *libCtx, r *rng, n int) {
	parts := []string{"", "a", "hello", "\n", "日本", "%d", "world ", "\x00", "{}"}
	for i := 0; i < n; i++ {
		// a history over several live buffers: New at any time (also after a String), Write to any
		// buffer, String of any buffer at any time (reading neither consumes nor releases it)
		bufs := []buf.Buffer{buf.New()}
		want := []string{""}
		k := r.intn(16)
		key := ""
		p := call(func() {
			for j := 0; j < k; j++ {
				switch op := r.intn(6); {
				case op == 0 && len(bufs) < 6:
					bufs = append(bufs, buf.New())
					want = append(want, "")
					key += "New|"
				case op <= 3:
					bi := r.intn(len(bufs))
					s := parts[r.intn(len(parts))]
					key += fmt.Sprintf("W%d:%s|", bi, s)
					buf.Write(bufs[bi], s)
					want[bi] += s
				default:
					bi := r.intn(len(bufs))
					key += fmt.Sprintf("S%d|", bi)
					if g := buf.String(bufs[bi]); g != want[bi] {
						libViol("buf", "String is not the concatenation of the writes so far to that buffer", key, g, want[bi])
					}
				}
			}
			for bi := range bufs {
				if g := buf.String(bufs[bi]); g != want[bi] {
					libViol("buf", "String is not the concatenation of the writes in order (several live buffers)", key, g, want[bi])
				}
			}
		})
		if p != nil {
			libViol("buf", "panicked", key, p, "no panic")
		}
		c.ev("buf", key, k >= 2)
	}
}

// ---- frt -------------------------------------------------------------------

type stru struct {
	A int
	b string
}
type strer struct{ n int }

func (s strer) String() string { return fmt.Sprintf("S<%d>", s.n) }

func checkFrt(c *libCtx) {
	// Pipe
	for x := -3; x <= 3; x++ {
		c.ev("frt.Pipe", fmt.Sprint(x), true)
		f := func(v int) string { return fmt.Sprint("f", v*2) }
		if g := frt.Pipe(x, f); g != f(x) {
			libViol("frt.Pipe", "Pipe x f must be f x", x, g, f(x))
		}
		n := 0
		frt.PipeUnit(x, func(v int) { n += v + 100 })
		if n != x+100 {
			libViol("frt.PipeUnit", "must call f x exactly once", x, n, x+100)
		}
	}
	// IfElse / IfElseUnit / IfOnly with counting thunks
	for _, cond := range []bool{true, false} {
		c.ev("frt.IfElse", fmt.Sprint(cond), true)
		tn, fn := 0, 0
		g := frt.IfElse(cond, func() string { tn++; return "T" }, func() string { fn++; return "F" })
		wt, wf, wr := 0, 1, "F"
		if cond {
			wt, wf, wr = 1, 0, "T"
		}
		if tn != wt || fn != wf || g != wr {
			libViol("frt.IfElse", "must run exactly the branch selected by the condition and return its value", cond, fmt.Sprint(tn, fn, g), fmt.Sprint(wt, wf, wr))
		}
		c.ev("frt.IfElseUnit", fmt.Sprint(cond), true)
		tn, fn = 0, 0
		frt.IfElseUnit(cond, func() { tn++ }, func() { fn++ })
		if tn != wt || fn != wf {
			libViol("frt.IfElseUnit", "must run exactly the branch selected by the condition", cond, fmt.Sprint(tn, fn), fmt.Sprint(wt, wf))
		}
		c.ev("frt.IfOnly", fmt.Sprint(cond), true)
		tn = 0
		frt.IfOnly(cond, func() { tn++ })
		if tn != wt {
			libViol("frt.IfOnly", "must run the body once iff the condition holds", cond, tn, wt)
		}
	}
	// OpAnd / OpNot
	for _, a := range []bool{true, false} {
		c.ev("frt.OpNot", fmt.Sprint(a), true)
		if frt.OpNot(a) != !a {
			libViol("frt.OpNot", "wrong", a, frt.OpNot(a), !a)
		}
		for _, b := range []bool{true, false} {
			if frt.OpAnd(a, b) != (a && b) {
				libViol("frt.OpAnd", "wrong", fmt.Sprint(a, b), frt.OpAnd(a, b), a && b)
			}
		}
	}
	// tuples
	for i := 0; i < 5; i++ {
		a, b, d := i*7+1, fmt.Sprint("s", i), i%2 == 0
		c.ev("frt.Tuple", fmt.Sprint(i), true)
		t2 := frt.NewTuple2(a, b)
		x, y := frt.Destr2(t2)
		x2, y2 := frt.Destr(t2)
		if frt.Fst(t2) != a || frt.Snd(t2) != b || x != a || y != b || x2 != a || y2 != b || t2.E0 != a || t2.E1 != b {
			libViol("frt.Tuple2", "NewTuple2/Fst/Snd/Destr2 are not inverse", fmt.Sprint(a, b), t2, "(a,b)")
		}
		t3 := frt.NewTuple3(a, b, d)
		p, q, r := frt.Destr3(t3)
		if p != a || q != b || r != d || t3.E0 != a || t3.E1 != b || t3.E2 != d {
			libViol("frt.Tuple3", "NewTuple3/Destr3 are not inverse", fmt.Sprint(a, b, d), t3, "(a,b,d)")
		}
	}
	if frt.Empty[int]() != 0 || frt.Empty[string]() != "" {
		libViol("frt.Empty", "is not the zero value", "", "", "")
	}
	// Assert / Panic*
	c.ev("frt.Assert", "t", true)
	if p := call(func() { frt.Assert(true, "m") }); p != nil {
		libViol("frt.Assert", "panics on a true condition", true, p, "no panic")
	}
	if p := call(func() { frt.Assert(false, "msg!") }); p == nil || fmt.Sprint(p) != "msg!" {
		libViol("frt.Assert", "must panic with the message on a false condition", false, p, "msg!")
	}
	if p := call(func() { frt.Panic("boom") }); p == nil || fmt.Sprint(p) != "boom" {
		libViol("frt.Panic", "must panic with the message", "boom", p, "boom")
	}
	if p := call(func() { frt.Panicf1("x=%d", 5) }); p == nil || fmt.Sprint(p) != "x=5" {
		libViol("frt.Panicf1", "must panic with the formatted message", "x=%d 5", p, "x=5")
	}
	if p := call(func() { frt.Panicf2("%s=%d", "k", 5) }); p == nil || fmt.Sprint(p) != "k=5" {
		libViol("frt.Panicf2", "must panic with the formatted message", "%s=%d k 5", p, "k=5")
	}
	// formatting helpers on every basic kind
	type kv struct {
		name string
		v    any
		dec  string // expected decimal / verbatim text for SInterP ("" = only "does not fail")
	}
	var ip *int
	seven := 7
	vals := []kv{
		{"int", int(-7), "-7"}, {"int8", int8(-8), "-8"}, {"int16", int16(-16), "-16"}, {"int32", int32(-32), "-32"}, {"int64", int64(-1 << 62), "-4611686018427387904"},
		{"uint", uint(7), "7"}, {"uint8", uint8(200), "200"}, {"uint16", uint16(65535), "65535"}, {"uint32", uint32(4000000000), "4000000000"},
		{"uint64", uint64(1<<63 + 5), "9223372036854775813"}, {"uintptr", uintptr(99), "99"},
		{"float32", float32(1.5), ""}, {"float64", float64(-2.25), ""},
		{"string", "str %d {x}", "str %d {x}"}, {"emptystring", "", ""}, {"bool", true, "true"},
		{"nil", nil, ""}, {"nilptr", ip, ""}, {"ptr", &seven, ""},
		{"struct", stru{1, "x"}, "{1 x}"}, {"slice", []int{1, 2}, "[1 2]"}, {"nilslice", []string(nil), "[]"},
		{"stringer", strer{3}, "S<3>"}, {"tuple", frt.NewTuple2(1, "a"), "{1 a}"}, {"map", map[string]int{"a": 1}, "map[a:1]"},
	}
	for _, v := range vals {
		v := v
		c.ev("frt.format", v.name, true)
		var g string
		if p := call(func() { g = frt.SInterP("<%s>", v.v) }); p != nil {
			libViol("frt.SInterP", "fails on a value of kind "+v.name, v.v, p, "formatted text")
		} else if gostrings.Contains(g, "%!") {
			libViol("frt.SInterP", "formatting error marker for kind "+v.name, v.v, g, "formatted text")
		} else if (v.dec != "" || v.name == "emptystring") && g != "<"+v.dec+">" {
			libViol("frt.SInterP", "wrong display form for kind "+v.name, v.v, g, "<"+v.dec+">")
		}
		if p := call(func() { g = frt.Sprintf1("<%v>", v.v) }); p != nil {
			libViol("frt.Sprintf1", "fails on a value of kind "+v.name, v.v, p, "formatted text")
		} else if w := fmt.Sprintf("<%v>", v.v); g != w {
			libViol("frt.Sprintf1", "differs from fmt.Sprintf", v.v, g, w)
		}
		if p := call(func() { g = frt.Sprintf2("%v|%v", v.v, 1) }); p != nil {
			libViol("frt.Sprintf2", "fails on a value of kind "+v.name, v.v, p, "formatted text")
		} else if w := fmt.Sprintf("%v|%v", v.v, 1); g != w {
			libViol("frt.Sprintf2", "differs from fmt.Sprintf (argument order?)", v.v, g, w)
		}
	}
	// several holes, order of arguments
	c.ev("frt.format", "multi", true)
	if g := frt.SInterP("%s-%s-%s", 1, "b", false); g != "1-b-false" {
		libViol("frt.SInterP", "holes filled in the wrong order", "1 b false", g, "1-b-false")
	}
	// the format fc emits for literal text containing percent signs: %% must stay a percent
	// sign whatever follows it, and holes keep their positions
	for _, tc := range []struct {
		f    string
		args []any
		want string
	}{
		{"100%%sure", nil, "100%sure"}, {"[%%s] n=%s s=%s", []any{42, "ok"}, "[%s] n=42 s=ok"}, {"%s%%s", []any{7}, "7%s"}, {"%%%s", []any{"x"}, "%x"},
		{"%%d %%v %%%% %s", []any{1}, "%d %v %% 1"}, {"%s%%", []any{"a"}, "a%"}, {"%%s%%s%s", []any{"z"}, "%s%sz"}, {"a%%", nil, "a%"},
	} {
		c.ev("frt.format", "percent:"+tc.f, true)
		var g string
		if p := call(func() { g = frt.SInterP(tc.f, tc.args...) }); p != nil || g != tc.want {
			libViol("frt.SInterP", "percent signs / hole positions not preserved", fmt.Sprintf("%q %v", tc.f, tc.args), fmt.Sprintf("%q panic=%v", g, p), tc.want)
		}
	}
	if g := frt.SInterP("plain"); g != "plain" {
		libViol("frt.SInterP", "no-hole text altered", "plain", g, "plain")
	}
	if g := frt.Sprintf2("%d/%s", 4, "x"); g != "4/x" {
		libViol("frt.Sprintf2", "arguments in the wrong order", "4 x", g, "4/x")
	}
	// Printf1 / Println write exactly the text to stdout: redirect fd through a pipe
	{
		c.ev("frt.Printf1", "pipe", true)
		old := os.Stdout
		rd, wr, err := os.Pipe()
		if err == nil {
			os.Stdout = wr
			p := call(func() {
				frt.Printf1("n=%d;", 42)
				frt.Println("line")
				frt.Printf1("%s", "é")
			})
			wr.Close()
			os.Stdout = old
			bs := make([]byte, 256)
			n, _ := rd.Read(bs)
			rd.Close()
			if p != nil || string(bs[:n]) != "n=42;line\né" {
				libViol("frt.Printf1/Println", "stdout text differs", "n=%d; 42 / line / é", fmt.Sprintf("%q panic=%v", bs[:n], p), "n=42;line\\né")
			}
		}
	}
}

func mainLibs() {
	seed := argInt("seed", 1)
	n := argInt("n", 5000)
	c := &libCtx{per: map[string]int64{}, seen: map[string]bool{}}
	r := newRng(uint64(seed))
	for i := 0; i < n; i++ {
		switch i % 3 {
		case 0:
			dictHistory(c, r, 40, func(k int) string { return []string{"a", "b", "", "ab", "k4", "k5", "日", "a ", "B"}[k] }, "s")
		case 1:
			dictHistory(c, r, 40, func(k int) int { return k*7 - 9 }, "i")
		default:
			dictHistory(c, r, 40, func(k int) frt.Tuple2[int, string] { return frt.NewTuple2(k%3, fmt.Sprint("t", k/3)) }, "t")
		}
	}
	checkStrings(c)
	checkBuf(c, r, n/5+50)
	checkFrt(c)
	stat("checks_per_area", c.per)
	stat("dict_histories", n)
	sample("dict history: 40 ops drawn from Add/TryFind/ContainsKey/Item/Keys/Values/KVs/ToDict over 2..8 keys, each write a unique value; a third start from ToDict of an empty list, half of the ToDict results (0..7 pairs) become the dictionary the history continues on")
	sample("strings: HasSuffix \".fo\" \"x.fo\"; Split \",\" \",a,,b,\"; SplitN 2 \",\" \"a,b,c\"; Concat \", \" [\"a\";\"\";\"b\"]")
	sample("frt.SInterP(\"<%s>\", v) for v of kinds int8..int64, uint..uint64, uintptr, float32/64, string, bool, nil, ptr, struct, slice, Stringer, tuple, map")
	done(c.evals, c.distinct)
}
