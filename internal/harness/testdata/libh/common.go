// libh: in-process monitors for pkg/slice, pkg/dict, pkg/strings, pkg/buf and
// pkg/frt. Compiled inside the scratch copy against the real packages.
// Protocol: JSON lines on stdout ({"t":"viol"|"stat"|"sample"|"done",...}).
package main

import (
	"bufio"
	"encoding/json"
	"fmt"
	"os"
	"strconv"
	"sync"
)

var (
	outMu sync.Mutex
	outW  = bufio.NewWriterSize(os.Stdout, 1<<16)
	nViol int
)

func emit(m map[string]any) {
	b, _ := json.Marshal(m)
	outMu.Lock()
	outW.Write(b)
	outW.WriteByte('\n')
	outMu.Unlock()
}

func viol(sig, what string, detail any) {
	outMu.Lock()
	nViol++
	n := nViol
	outMu.Unlock()
	if n > 200 {
		return
	}
	emit(map[string]any{"t": "viol", "sig": sig, "what": what, "detail": detail})
}

func stat(k string, v any) { emit(map[string]any{"t": "stat", "k": k, "v": v}) }
func sample(v any)         { emit(map[string]any{"t": "sample", "v": v}) }
func done(evals, distinct int64) {
	emit(map[string]any{"t": "done", "evals": evals, "distinct": distinct})
	outMu.Lock()
	outW.Flush()
	outMu.Unlock()
}

// splitmix64
type rng struct{ s uint64 }

func newRng(seed uint64) *rng { return &rng{s: seed*0x9e3779b97f4a7c15 + 0x1234567} }
func (r *rng) u64() uint64 {
	r.s += 0x9e3779b97f4a7c15
	z := r.s
	z = (z ^ (z >> 30)) * 0xbf58476d1ce4e5b9
	z = (z ^ (z >> 27)) * 0x94d049bb133111eb
	return z ^ (z >> 31)
}
func (r *rng) intn(n int) int {
	if n <= 0 {
		return 0
	}
	return int(r.u64() % uint64(n))
}
func (r *rng) chance(p float64) bool { return float64(r.u64()>>11)/float64(1<<53) < p }

func argInt(name string, def int) int {
	for i, a := range os.Args {
		if a == "-"+name && i+1 < len(os.Args) {
			n, err := strconv.Atoi(os.Args[i+1])
			if err == nil {
				return n
			}
		}
	}
	return def
}

// call runs f under recover and returns the panic value (nil if none).
func call(f func()) (p any) {
	defer func() {
		if r := recover(); r != nil {
			p = fmt.Sprint(r)
		}
	}()
	f()
	return nil
}

func main() {
	if len(os.Args) < 2 {
		fmt.Fprintln(os.Stderr, "usage: libh slicepure|slicespec|libs [-seed n] [-n n]")
		os.Exit(2)
	}
	defer func() {
		outMu.Lock()
		outW.Flush()
		outMu.Unlock()
	}()
	switch os.Args[1] {
	case "slicepure":
		mainSlicePure()
	case "slicespec":
		mainSliceSpec()
	case "libs":
		mainLibs()
	default:
		fmt.Fprintln(os.Stderr, "unknown mode")
		os.Exit(2)
	}
}
