package main

// C13 monitor: every function of pkg/slice against an independent list model
// (plain index loops written from the F# List documentation; nothing here
// calls pkg/slice to compute an expectation).

import (
	"cmp"
	"fmt"
	"strings"

	"github.com/karino2/folang/pkg/frt"
	"github.com/karino2/folang/pkg/slice"
)

type specCtx struct {
	evals    int64
	distinct int64
	perFn    map[string]int64
}

func (c *specCtx) ev(fn string, nontrivial bool) {
	c.evals++
	c.perFn[fn]++
	if nontrivial {
		c.distinct++ // inputs are enumerated without repetition, so every non-trivial one is distinct
	}
}

func eqS[T comparable](a, b []T) bool {
	if len(a) != len(b) {
		return false
	}
	for i := range a {
		if a[i] != b[i] {
			return false
		}
	}
	return true
}

func showS[T any](s []T) string { return fmt.Sprintf("%v(len %d)", s, len(s)) }

func specViol(fn string, what string, in any, got, want any) {
	viol("spec:"+fn+":"+what, fmt.Sprintf("slice.%s: %s", fn, what),
		map[string]any{"input": fmt.Sprint(in), "got": fmt.Sprint(got), "want": fmt.Sprint(want)})
}

// guard runs f; a panic inside the domain is a violation.
func guard(fn string, in any, f func()) {
	if p := call(f); p != nil {
		specViol(fn, "panicked inside its domain", in, p, "a value")
	}
}

type fam[T cmp.Ordered] struct {
	name    string
	elems   []T // alphabet
	extra   T   // element outside the alphabet
	preds   []func(T) bool
	predNm  []string
	toInt   []func(T) int
	toIntNm []string
	mapTT   func(T) T
	toStr   func(T) string
}

func checkAll[T cmp.Ordered](c *specCtx, f *fam[T], s []T, small [][]T) {
	n := len(s)
	nt := n > 0
	in := showS(s)
	sOrig := append([]T(nil), s...)

	guard("Length", in, func() {
		c.ev("Length", nt)
		if g := slice.Length(s); g != n {
			specViol("Length", "wrong count", in, g, n)
		}
		c.ev("Len", nt)
		if g := slice.Len(s); g != n {
			specViol("Len", "wrong count", in, g, n)
		}
		c.ev("IsEmpty", true)
		if g := slice.IsEmpty(s); g != (n == 0) {
			specViol("IsEmpty", "disagrees with element count", in, g, n == 0)
		}
		c.ev("IsNotEmpty", true)
		if g := slice.IsNotEmpty(s); g != (n != 0) {
			specViol("IsNotEmpty", "disagrees with element count", in, g, n != 0)
		}
	})
	for i := 0; i < n; i++ {
		i := i
		guard("Item", in, func() {
			c.ev("Item", true)
			if g := slice.Item(i, s); g != s[i] {
				specViol("Item", "wrong element", fmt.Sprint(i, " ", in), g, s[i])
			}
		})
	}
	if n > 0 {
		guard("Head", in, func() {
			c.ev("Head", true)
			if g := slice.Head(s); g != s[0] {
				specViol("Head", "not the first element", in, g, s[0])
			}
		})
		guard("Last", in, func() {
			c.ev("Last", true)
			if g := slice.Last(s); g != s[n-1] {
				specViol("Last", "not the last element", in, g, s[n-1])
			}
		})
		guard("Tail", in, func() {
			c.ev("Tail", true)
			want := make([]T, 0, n)
			for i := 1; i < n; i++ {
				want = append(want, s[i])
			}
			if g := slice.Tail(s); !eqS(g, want) {
				specViol("Tail", "not all-but-first", in, g, want)
			}
		})
		guard("PopLast", in, func() {
			c.ev("PopLast", true)
			want := make([]T, 0, n)
			for i := 0; i < n-1; i++ {
				want = append(want, s[i])
			}
			if g := slice.PopLast(s); !eqS(g, want) {
				specViol("PopLast", "not all-but-last", in, g, want)
			}
		})
	}
	for _, e := range append(append([]T(nil), f.elems...), f.extra) {
		e := e
		guard("PushLast", in, func() {
			c.ev("PushLast", true)
			want := make([]T, 0, n+1)
			for i := 0; i < n; i++ {
				want = append(want, s[i])
			}
			want = append(want, e)
			if g := slice.PushLast(e, append([]T(nil), s...)); !eqS(g, want) {
				specViol("PushLast", "element not added at the end", fmt.Sprint(e, " ", in), g, want)
			}
		})
		guard("PushHead", in, func() {
			c.ev("PushHead", true)
			want := make([]T, 0, n+1)
			want = append(want, e)
			for i := 0; i < n; i++ {
				want = append(want, s[i])
			}
			if g := slice.PushHead(e, s); !eqS(g, want) {
				specViol("PushHead", "element not added at the front", fmt.Sprint(e, " ", in), g, want)
			}
		})
	}
	for k := 0; k <= n; k++ {
		k := k
		guard("Take", in, func() {
			c.ev("Take", nt)
			var want []T
			for i := 0; i < k; i++ {
				want = append(want, s[i])
			}
			if g := slice.Take(k, s); !eqS(g, want) {
				specViol("Take", "not the first n elements", fmt.Sprint(k, " ", in), g, want)
			}
		})
		guard("Skip", in, func() {
			c.ev("Skip", nt)
			var want []T
			for i := k; i < n; i++ {
				want = append(want, s[i])
			}
			if g := slice.Skip(k, s); !eqS(g, want) {
				specViol("Skip", "not the elements after the first n", fmt.Sprint(k, " ", in), g, want)
			}
		})
	}
	// Map / Mapi / Iter with call-order recording
	guard("Map", in, func() {
		c.ev("Map", nt)
		var seen []T
		g := slice.Map(func(e T) string { seen = append(seen, e); return f.toStr(e) + "'" }, s)
		want := make([]string, 0, n)
		for i := 0; i < n; i++ {
			want = append(want, f.toStr(s[i])+"'")
		}
		if !eqS(g, want) {
			specViol("Map", "wrong result or order", in, g, want)
		}
		if !eqS(seen, s) {
			specViol("Map", "function not applied once per element in order", in, seen, s)
		}
		c.ev("Map", nt)
		g2 := slice.Map(f.mapTT, s)
		want2 := make([]T, 0, n)
		for i := 0; i < n; i++ {
			want2 = append(want2, f.mapTT(s[i]))
		}
		if !eqS(g2, want2) {
			specViol("Map", "wrong result or order", in, g2, want2)
		}
	})
	guard("Mapi", in, func() {
		c.ev("Mapi", nt)
		var idx []int
		g := slice.Mapi(func(i int, e T) string { idx = append(idx, i); return fmt.Sprint(i, ":", f.toStr(e)) }, s)
		want := make([]string, 0, n)
		wantIdx := make([]int, 0, n)
		for i := 0; i < n; i++ {
			want = append(want, fmt.Sprint(i, ":", f.toStr(s[i])))
			wantIdx = append(wantIdx, i)
		}
		if !eqS(g, want) {
			specViol("Mapi", "wrong result, index or order", in, g, want)
		}
		if !eqS(idx, wantIdx) {
			specViol("Mapi", "indices not 0..n-1 in order", in, idx, wantIdx)
		}
	})
	guard("Iter", in, func() {
		c.ev("Iter", nt)
		var seen []T
		slice.Iter(func(e T) { seen = append(seen, e) }, s)
		if !eqS(seen, s) {
			specViol("Iter", "action not run once per element in order", in, seen, s)
		}
	})
	for pi, p := range f.preds {
		p := p
		pn := f.predNm[pi]
		guard("Filter", in, func() {
			c.ev("Filter", nt)
			var seen []T
			g := slice.Filter(func(e T) bool { seen = append(seen, e); return p(e) }, s)
			var want []T
			for i := 0; i < n; i++ {
				if p(s[i]) {
					want = append(want, s[i])
				}
			}
			if !eqS(g, want) {
				specViol("Filter", "wrong elements or order", pn+" "+in, g, want)
			}
			if !eqS(seen, s) {
				specViol("Filter", "predicate not applied once per element in order", pn+" "+in, seen, s)
			}
		})
		guard("Forall", in, func() {
			c.ev("Forall", nt)
			var seen []T
			g := slice.Forall(func(e T) bool { seen = append(seen, e); return p(e) }, s)
			want := true
			var wantSeen []T
			for i := 0; i < n; i++ {
				wantSeen = append(wantSeen, s[i])
				if !p(s[i]) {
					want = false
					break
				}
			}
			if g != want {
				specViol("Forall", "wrong answer", pn+" "+in, g, want)
			}
			if !eqS(seen, wantSeen) {
				specViol("Forall", "does not scan left to right up to the deciding element", pn+" "+in, seen, wantSeen)
			}
		})
		guard("Forany", in, func() {
			c.ev("Forany", nt)
			var seen []T
			g := slice.Forany(func(e T) bool { seen = append(seen, e); return p(e) }, s)
			want := false
			var wantSeen []T
			for i := 0; i < n; i++ {
				wantSeen = append(wantSeen, s[i])
				if p(s[i]) {
					want = true
					break
				}
			}
			if g != want {
				specViol("Forany", "wrong answer", pn+" "+in, g, want)
			}
			if !eqS(seen, wantSeen) {
				specViol("Forany", "does not scan left to right up to the deciding element", pn+" "+in, seen, wantSeen)
			}
		})
		guard("TryFind", in, func() {
			c.ev("TryFind", nt)
			var seen []T
			g := slice.TryFind(func(e T) bool { seen = append(seen, e); return p(e) }, s)
			var wantV T
			wantOk := false
			var wantSeen []T
			for i := 0; i < n; i++ {
				wantSeen = append(wantSeen, s[i])
				if p(s[i]) {
					wantV, wantOk = s[i], true
					break
				}
			}
			if g.E0 != wantV || g.E1 != wantOk {
				specViol("TryFind", "not the first match / (zero,false)", pn+" "+in, g, fmt.Sprint(wantV, wantOk))
			}
			if !eqS(seen, wantSeen) {
				specViol("TryFind", "does not scan left to right up to the first match", pn+" "+in, seen, wantSeen)
			}
		})
	}
	// Sort / SortBy: ascending permutation
	isPerm := func(a, b []T) bool {
		if len(a) != len(b) {
			return false
		}
		m := map[T]int{}
		for _, e := range a {
			m[e]++
		}
		for _, e := range b {
			m[e]--
		}
		for _, v := range m {
			if v != 0 {
				return false
			}
		}
		return true
	}
	guard("Sort", in, func() {
		c.ev("Sort", n > 1)
		g := slice.Sort(s)
		if !isPerm(g, s) {
			specViol("Sort", "result is not a permutation of the input", in, g, "permutation")
		}
		for i := 1; i < len(g); i++ {
			if g[i-1] > g[i] {
				specViol("Sort", "result not ascending", in, g, "ascending")
				break
			}
		}
	})
	for ki, key := range f.toInt {
		key := key
		kn := f.toIntNm[ki]
		guard("SortBy", in, func() {
			c.ev("SortBy", n > 1)
			g := slice.SortBy(key, s)
			if !isPerm(g, s) {
				specViol("SortBy", "result is not a permutation of the input", kn+" "+in, g, "permutation")
			}
			for i := 1; i < len(g); i++ {
				if key(g[i-1]) > key(g[i]) {
					specViol("SortBy", "keys not ascending", kn+" "+in, g, "ascending by key")
					break
				}
			}
		})
	}
	guard("Distinct", in, func() {
		c.ev("Distinct", nt)
		var want []T
		for i := 0; i < n; i++ {
			dup := false
			for j := 0; j < i; j++ {
				if s[j] == s[i] {
					dup = true
					break
				}
			}
			if !dup {
				want = append(want, s[i])
			}
		}
		if g := slice.Distinct(s); !eqS(g, want) {
			specViol("Distinct", "does not keep first occurrences in order", in, g, want)
		}
	})
	// Fold: left fold with a non-commutative, non-associative folder
	guard("Fold", in, func() {
		c.ev("Fold", nt)
		var seen []T
		g := slice.Fold(func(acc string, e T) string { seen = append(seen, e); return "(" + acc + "." + f.toStr(e) + ")" }, "z", s)
		want := "z"
		for i := 0; i < n; i++ {
			want = "(" + want + "." + f.toStr(s[i]) + ")"
		}
		if g != want {
			specViol("Fold", "not a left fold from the initial state", in, g, want)
		}
		if !eqS(seen, s) {
			specViol("Fold", "folder not applied once per element in order", in, seen, s)
		}
		c.ev("Fold", nt)
		g2 := slice.Fold(func(acc int, e T) int { return acc*3 + f.toInt[0](e) + 1 }, 7, s)
		w2 := 7
		for i := 0; i < n; i++ {
			w2 = w2*3 + f.toInt[0](s[i]) + 1
		}
		if g2 != w2 {
			specViol("Fold", "not a left fold from the initial state", in, g2, w2)
		}
	})
	// Collect
	guard("Collect", in, func() {
		c.ev("Collect", nt)
		var seen []T
		cf := func(e T) []string {
			seen = append(seen, e)
			k := f.toInt[0](e) % 3
			if k < 0 {
				k = -k
			}
			var r []string
			for j := 0; j < k; j++ {
				r = append(r, fmt.Sprint(f.toStr(e), "#", j))
			}
			return r
		}
		g := slice.Collect(cf, s)
		var want []string
		for i := 0; i < n; i++ {
			k := f.toInt[0](s[i]) % 3
			if k < 0 {
				k = -k
			}
			for j := 0; j < k; j++ {
				want = append(want, fmt.Sprint(f.toStr(s[i]), "#", j))
			}
		}
		if !eqS(g, want) {
			specViol("Collect", "results not concatenated in order", in, g, want)
		}
		if !eqS(seen, s) {
			specViol("Collect", "function not applied once per element in order", in, seen, s)
		}
	})
	// binary functions against the small slices
	for _, t := range small {
		t := t
		guard("Append", in, func() {
			c.ev("Append", nt || len(t) > 0)
			want := make([]T, 0, n+len(t))
			for i := 0; i < n; i++ {
				want = append(want, s[i])
			}
			for i := 0; i < len(t); i++ {
				want = append(want, t[i])
			}
			if g := slice.Append(s, t); !eqS(g, want) {
				specViol("Append", "not s1 followed by s2", in+" "+showS(t), g, want)
			}
			c.ev("Append", nt || len(t) > 0)
			want2 := make([]T, 0, n+len(t))
			for i := 0; i < len(t); i++ {
				want2 = append(want2, t[i])
			}
			for i := 0; i < n; i++ {
				want2 = append(want2, s[i])
			}
			if g := slice.Append(t, s); !eqS(g, want2) {
				specViol("Append", "not s1 followed by s2", showS(t)+" "+in, g, want2)
			}
		})
		if len(t) == n {
			guard("Zip", in, func() {
				c.ev("Zip", nt)
				g := slice.Zip(s, t)
				ok := len(g) == n
				for i := 0; ok && i < n; i++ {
					if g[i] != frt.NewTuple2(s[i], t[i]) {
						ok = false
					}
				}
				if !ok {
					specViol("Zip", "does not pair positionally", in+" "+showS(t), g, "pairs (s[i], t[i])")
				}
			})
		}
		guard("Concat", in, func() {
			c.ev("Concat", nt || len(t) > 0)
			g := slice.Concat([][]T{s, t, s})
			var want []T
			for _, part := range [][]T{s, t, s} {
				for i := 0; i < len(part); i++ {
					want = append(want, part[i])
				}
			}
			if !eqS(g, want) {
				specViol("Concat", "parts not concatenated in order", in+" "+showS(t), g, want)
			}
		})
	}
	// Zip with itself shifted (covers every length)
	guard("Zip", in, func() {
		c.ev("Zip", nt)
		t := make([]string, 0, n)
		for i := 0; i < n; i++ {
			t = append(t, fmt.Sprint("p", i))
		}
		g := slice.Zip(s, t)
		ok := len(g) == n
		for i := 0; ok && i < n; i++ {
			if g[i].E0 != s[i] || g[i].E1 != t[i] {
				ok = false
			}
		}
		if !ok {
			specViol("Zip", "does not pair positionally", in, g, "pairs (s[i], p_i)")
		}
	})
	guard("Concat", in, func() {
		c.ev("Concat", true)
		if g := slice.Concat([][]T{}); len(g) != 0 {
			specViol("Concat", "concat of nothing is not empty", "[]", g, "[]")
		}
		c.ev("Concat", nt)
		if g := slice.Concat([][]T{s}); !eqS(g, s) {
			specViol("Concat", "concat of one part is not that part", in, g, s)
		}
	})
	// arguments that are overlapping views of one array with spare capacity (what PopLast, Take or a
	// Go sub-slice hand out): the result must still be computed from the values the arguments
	// had at the call
	if n >= 1 && n <= 6 {
		fresh := func() []T {
			b := make([]T, n, n+4)
			copy(b, sOrig)
			return b
		}
		cat := func(parts ...[]T) []T {
			var w []T
			for _, p := range parts {
				w = append(w, p...)
			}
			return w
		}
		for k := 0; k <= n; k++ {
			k := k
			for _, t := range small {
				if len(t) > 2 {
					continue
				}
				t := t
				guard("Concat", in, func() {
					c.ev("Concat", true)
					base := fresh()
					p := base[:k]
					want := cat(p, t, base)
					if g := slice.Concat([][]T{p, t, base}); !eqS(g, want) {
						specViol("Concat", "overlapping views: parts not concatenated in order", fmt.Sprintf("[%v (cap %d); %v; %v]", sOrig[:k], cap(p), t, sOrig), g, want)
					}
					c.ev("Concat", true)
					base = fresh()
					p = base[:k]
					want = cat(p, t, base[k:])
					if g := slice.Concat([][]T{{}, p, t, base[k:]}); !eqS(g, want) {
						specViol("Concat", "overlapping views after an empty part: parts not concatenated in order", fmt.Sprintf("[[]; %v (cap %d); %v; %v]", sOrig[:k], cap(p), t, sOrig[k:]), g, want)
					}
				})
				guard("Append", in, func() {
					c.ev("Append", true)
					base := fresh()
					p := base[:k]
					want := cat(p, base)
					if g := slice.Append(p, base); !eqS(g, want) {
						specViol("Append", "overlapping views: not s1 followed by s2", fmt.Sprintf("%v (cap %d) %v", sOrig[:k], cap(p), sOrig), g, want)
					}
					c.ev("Append", true)
					base = fresh()
					p = base[:k]
					want = cat(cat(p, t), base[k:])
					if g := slice.Append(slice.Append(p, t), base[k:]); !eqS(g, want) {
						specViol("Append", "overlapping views: (s1 ++ t) ++ rest", fmt.Sprintf("%v (cap %d) %v %v", sOrig[:k], cap(p), t, sOrig[k:]), g, want)
					}
				})
			}
			guard("Collect", in, func() {
				c.ev("Collect", true)
				base := fresh()
				// the function returns prefixes of one shared array, the first one with spare capacity
				idx := 0
				cf := func(e T) []T {
					idx++
					return base[:(k+idx-1)%(n+1)]
				}
				var want []T
				for i := 0; i < n; i++ {
					want = append(want, sOrig[:(k+i)%(n+1)]...)
				}
				if g := slice.Collect(cf, s); !eqS(g, want) {
					specViol("Collect", "function results that share an array: not concatenated in order", fmt.Sprintf("%v, f_i = prefix of length (%d+i) mod %d", sOrig, k, n+1), g, want)
				}
			})
		}
	}
	if !eqS(s, sOrig) {
		specViol("(any)", "input slice changed during the checks", sOrig, s, sOrig)
	}
}

func enumerate[T any](alpha []T, maxLen int, f func([]T)) {
	var rec func(cur []T)
	rec = func(cur []T) {
		f(append([]T(nil), cur...))
		if len(cur) == maxLen {
			return
		}
		for _, a := range alpha {
			rec(append(cur, a))
		}
	}
	rec(nil)
}

func mainSliceSpec() {
	seed := argInt("seed", 1)
	maxInt := argInt("maxint", 6)
	maxStr := argInt("maxstr", 4)
	nRandom := argInt("n", 0)
	c := &specCtx{perFn: map[string]int64{}}

	fi := &fam[int]{name: "int", elems: []int{0, 1, 2}, extra: 9,
		preds:   []func(int) bool{func(e int) bool { return e == 0 }, func(e int) bool { return e > 0 }, func(e int) bool { return true }, func(e int) bool { return false }, func(e int) bool { return e%2 == 0 }},
		predNm:  []string{"(=0)", "(>0)", "true", "false", "even"},
		toInt:   []func(int) int{func(e int) int { return e }, func(e int) int { return -e }, func(e int) int { return e % 2 }, func(e int) int { return 5 }},
		toIntNm: []string{"id", "neg", "mod2", "const"},
		mapTT:   func(e int) int { return e*2 + 1 },
		toStr:   func(e int) string { return fmt.Sprint(e) },
	}
	fs := &fam[string]{name: "string", elems: []string{"", "a", "b"}, extra: "zz",
		preds:   []func(string) bool{func(e string) bool { return e == "" }, func(e string) bool { return e > "a" }, func(e string) bool { return true }, func(e string) bool { return false }},
		predNm:  []string{"(=\"\")", "(>\"a\")", "true", "false"},
		toInt:   []func(string) int{func(e string) int { return len(e) }, func(e string) int { return -len(e) }, func(e string) int { return strings.Count(e, "a") }},
		toIntNm: []string{"len", "neglen", "countA"},
		mapTT:   func(e string) string { return e + "x" },
		toStr:   func(e string) string { return "<" + e + ">" },
	}
	var smallI [][]int
	enumerate(fi.elems, 2, func(s []int) { smallI = append(smallI, s) })
	var smallS [][]string
	enumerate(fs.elems, 2, func(s []string) { smallS = append(smallS, s) })

	guard("New", "()", func() {
		c.ev("New", true)
		if g := slice.New[int](); len(g) != 0 {
			specViol("New", "not empty", "()", g, "[]")
		}
		c.ev("New", true)
		if g := slice.New[string](); len(g) != 0 {
			specViol("New", "not empty", "()", g, "[]")
		}
	})
	nSlices := 0
	var samples []string
	enumerate(fi.elems, maxInt, func(s []int) {
		nSlices++
		// equal-length partners for Zip beyond the small set
		sm := smallI
		if len(s) > 2 {
			rev := make([]int, len(s))
			for i := range s {
				rev[i] = s[len(s)-1-i]
			}
			sm = append(append([][]int(nil), smallI...), rev)
		}
		checkAll(c, fi, s, sm)
		if nSlices == 500 {
			samples = append(samples, "int slice "+fmt.Sprint(s)+" x all functions")
		}
	})
	enumerate(fs.elems, maxStr, func(s []string) {
		nSlices++
		checkAll(c, fs, s, smallS)
		if nSlices%97 == 0 && len(samples) < 3 {
			samples = append(samples, "string slice "+fmt.Sprintf("%q", s)+" x all functions")
		}
	})
	// wide alphabet: many DISTINCT values, early values coming back late, duplicates in runs
	// (behaviour that depends on how many different elements were seen so far)
	for n := 1; n <= 20; n++ {
		base := make([]int, n)
		for i := range base {
			base[i] = i * 3 % 41
		}
		fams := [][]int{append([]int{}, base...)}
		rev := make([]int, n)
		for i := range base {
			rev[i] = base[n-1-i]
		}
		fams = append(fams, rev)
		for k := 0; k < n; k += 1 + n/6 {
			fams = append(fams, append(append([]int{}, base...), base[k]))                     // an early value repeats at the end
			fams = append(fams, append(append([]int{}, base...), base[k], base[n-1], base[k])) // and again
		}
		dbl := append(append([]int{}, base...), base...)
		fams = append(fams, dbl)
		for _, s := range fams {
			nSlices++
			checkAll(c, fi, s, smallI[:3])
		}
		if n == 12 {
			samples = append(samples, "wide-alphabet int slice "+fmt.Sprint(fams[2]))
		}
	}
	// extreme values: the whole int range (differences and sums of two elements overflow), and
	// strings that differ in length, case, prefix, multi-byte characters
	{
		const maxI, minI = int(^uint(0) >> 1), -int(^uint(0)>>1) - 1
		ext := []int{minI, -(maxI/2 + 10), -1, 0, 1, maxI/2 + 10, maxI}
		enumerate(ext, 3, func(s []int) {
			nSlices++
			checkAll(c, fi, s, smallI[:3])
		})
		for _, s := range [][]int{{maxI, -1, 0, minI, 1}, {maxI/2 + 10, 3, -(maxI/2 + 10), -3, 0}, {1, minI, maxI, minI, -1, maxI}} {
			nSlices++
			checkAll(c, fi, s, smallI[:3])
		}
		exts := []string{"", "a", "A", "aa", "ab", "b", "é", "日本", "a\x00", "\xff"}
		enumerate(exts, 2, func(s []string) {
			nSlices++
			checkAll(c, fs, s, smallS[:3])
		})
		samples = append(samples, "extreme int slice "+fmt.Sprint([]int{maxI, -1, 0, minI, 1}))
	}
	for n := 1; n <= 14; n++ {
		base := make([]string, n)
		for i := range base {
			base[i] = fmt.Sprintf("s%02d", (i*5)%17)
		}
		for k := 0; k < n; k += 1 + n/4 {
			nSlices++
			checkAll(c, fs, append(append([]string{}, base...), base[k], base[0]), smallS[:3])
		}
	}
	// random longer slices: sorted, reversed, many duplicates
	r := newRng(uint64(seed))
	for k := 0; k < nRandom; k++ {
		n := 7 + r.intn(40)
		s := make([]int, n)
		mode := r.intn(4)
		for i := range s {
			switch mode {
			case 0:
				s[i] = r.intn(5)
			case 1:
				s[i] = i / (1 + r.intn(3))
			case 2:
				s[i] = n - i
			default:
				s[i] = r.intn(1000) - 500
			}
		}
		nSlices++
		checkAll(c, fi, s, smallI[:4])
		if k == 0 {
			samples = append(samples, "random int slice "+fmt.Sprint(s))
		}
	}
	stat("input_slices", nSlices)
	stat("max_len_int", maxInt)
	stat("max_len_string", maxStr)
	stat("random_long_slices", nRandom)
	stat("checks_per_function", c.perFn)
	stat("functions_checked", len(c.perFn))
	for _, s := range samples {
		sample(s)
	}
	done(c.evals, c.distinct)
}
