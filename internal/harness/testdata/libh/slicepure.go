package main

// C12 monitor: every slice value ever produced stays alive in a pool together
// with a deep snapshot taken at creation; after EACH library call the whole
// pool is compared with the snapshots.

import (
	"fmt"
	"hash/fnv"
	"strings"
	"sync"
	"sync/atomic"

	"github.com/karino2/folang/pkg/frt"
	"github.com/karino2/folang/pkg/slice"
)

type pval[T comparable] struct {
	id     int
	s      []T
	snap   []T
	origin string
	made   string // contents when produced, for the witness
	deps   []int
	opName string
}

type zval[T comparable] struct {
	s      []frt.Tuple2[T, T]
	snap   []frt.Tuple2[T, T]
	origin string
	deps   []int
}

type elemKit[T comparable] struct {
	name   string
	fresh  func(n int) T // unique element from a counter
	small  func(r *rng) T
	sortFn func([]T) []T // nil if T not ordered
	key    func(T) int   // projection for SortBy
	pred   func(k int) func(T) bool
	mapf   func(k int) func(T) T
	str    func(T) string
}

type pureStats struct {
	calls, spareArgCalls, sharedArgCalls, valuesMade, spareValues, maxPool, checks int64
	perOp                                                                          map[string]int64
}

type history[T comparable] struct {
	kit    *elemKit[T]
	pool   []*pval[T]
	zpool  []*zval[T]
	log    []string // one line per call
	ctr    int
	st     *pureStats
	nontr  bool
	failed bool
	hist   uint64
}

func clone[T any](s []T) []T {
	if s == nil {
		return nil
	}
	c := make([]T, len(s))
	copy(c, s)
	return c
}

func (h *history[T]) fmtS(s []T) string {
	var b strings.Builder
	b.WriteByte('[')
	for i, e := range s {
		if i > 0 {
			b.WriteByte(' ')
		}
		b.WriteString(h.kit.str(e))
	}
	b.WriteByte(']')
	return b.String()
}

func (h *history[T]) add(s []T, opName, origin string, deps []int) *pval[T] {
	v := &pval[T]{id: len(h.pool), s: s, snap: clone(s), origin: origin, deps: deps, opName: opName}
	v.made = h.fmtS(s)
	h.pool = append(h.pool, v)
	h.st.valuesMade++
	if cap(s) > len(s) {
		h.st.spareValues++
	}
	if int64(len(h.pool)) > h.st.maxPool {
		h.st.maxPool = int64(len(h.pool))
	}
	return v
}

func sameBacking[T any](a, b []T) bool {
	if cap(a) == 0 || cap(b) == 0 {
		return false
	}
	pa, pb := &a[:cap(a)][cap(a)-1], &b[:cap(b)][cap(b)-1]
	return pa == pb
}

// noteArgs updates the statistics that make a history non-trivial.
func (h *history[T]) noteArgs(ids ...int) {
	for _, id := range ids {
		v := h.pool[id]
		if cap(v.s) > len(v.s) {
			h.st.spareArgCalls++
			h.nontr = true
		}
		for _, o := range h.pool {
			if o.id != id && sameBacking(o.s, v.s) {
				h.st.sharedArgCalls++
				h.nontr = true
				break
			}
		}
	}
}

func (h *history[T]) closure(ids []int) map[int]bool {
	need := map[int]bool{}
	var walk func(int)
	walk = func(id int) {
		if need[id] {
			return
		}
		need[id] = true
		for _, d := range h.pool[id].deps {
			walk(d)
		}
	}
	for _, id := range ids {
		walk(id)
	}
	return need
}

// check compares the whole pool with its snapshots. callDesc is the call that
// just returned; argIDs its pool arguments.
func (h *history[T]) check(opName, callDesc string, argIDs []int) bool {
	ok := true
	for _, v := range h.pool {
		h.st.checks++
		bad := len(v.s) != len(v.snap)
		if !bad {
			for i := range v.s {
				if v.s[i] != v.snap[i] {
					bad = true
					break
				}
			}
		}
		if bad {
			ok = false
			need := h.closure(append([]int{v.id}, argIDs...))
			var lines []string
			for _, p := range h.pool {
				if need[p.id] {
					lines = append(lines, fmt.Sprintf("v%d = %s   // = %s when produced; len=%d cap=%d", p.id, p.origin, p.made, len(p.s), cap(p.s)))
				}
			}
			lines = append(lines, "then: "+callDesc)
			lines = append(lines, fmt.Sprintf("=> v%d was %s, is now %s", v.id, h.fmtS(v.snap), h.fmtS(v.s)))
			viol("mutated-by:"+opName,
				fmt.Sprintf("slice.%s changed an existing %s slice value produced by %s", opName, h.kit.name, v.opName),
				map[string]any{"history": lines, "elem": h.kit.name})
			// resync so that one defect does not cascade
			v.snap = clone(v.s)
		}
	}
	for _, z := range h.zpool {
		h.st.checks++
		bad := len(z.s) != len(z.snap)
		if !bad {
			for i := range z.s {
				if z.s[i] != z.snap[i] {
					bad = true
					break
				}
			}
		}
		if bad {
			ok = false
			viol("mutated-by:"+opName, "slice."+opName+" changed an existing Zip result",
				map[string]any{"history": []string{z.origin, "then: " + callDesc}})
			z.snap = clone(z.s)
		}
	}
	if !ok {
		h.failed = true
	}
	return ok
}

const (
	opNew = iota
	opLit
	opPushLast
	opPushHead
	opPopLast
	opTail
	opTake
	opSkip
	opAppend
	opConcat
	opMap
	opMapi
	opFilter
	opSort
	opSortBy
	opDistinct
	opZip
	opCollect
	opIter
	opFold
	opScan // Forall/Forany/TryFind
	opRead // Length/Item/Head/Last/IsEmpty
	numOps
)

var opNames = [...]string{"New", "Lit", "PushLast", "PushHead", "PopLast", "Tail", "Take", "Skip", "Append", "Concat", "Map", "Mapi",
	"Filter", "Sort", "SortBy", "Distinct", "Zip", "Collect", "Iter", "Fold", "Scan", "Read"}

// apply performs op with the given pool arguments (a, b) and parameter k.
// It returns false if the op is not applicable (precondition), so that the
// caller may choose another one.
func (h *history[T]) apply(op, a, b, k int) bool {
	kit := h.kit
	var A, B *pval[T]
	if len(h.pool) > 0 {
		A = h.pool[a]
		B = h.pool[b]
	}
	var res []T
	var desc string
	deps := []int{a}
	name := opNames[op]
	produced := true
	switch op {
	case opNew:
		res = slice.New[T]()
		desc = "slice.New ()"
		deps = nil
	case opLit:
		n := k % 5
		res = make([]T, 0, n)
		for i := 0; i < n; i++ {
			h.ctr++
			res = append(res, kit.fresh(h.ctr))
		}
		res = res[:n:n]
		desc = "literal " + h.fmtS(res)
		deps = nil
	case opPushLast:
		h.ctr++
		e := kit.fresh(h.ctr)
		h.noteArgs(a)
		res = slice.PushLast(e, A.s)
		desc = fmt.Sprintf("slice.PushLast %s v%d", kit.str(e), a)
	case opPushHead:
		h.ctr++
		e := kit.fresh(h.ctr)
		h.noteArgs(a)
		res = slice.PushHead(e, A.s)
		desc = fmt.Sprintf("slice.PushHead %s v%d", kit.str(e), a)
	case opPopLast:
		if len(A.s) == 0 {
			return false
		}
		h.noteArgs(a)
		res = slice.PopLast(A.s)
		desc = fmt.Sprintf("slice.PopLast v%d", a)
	case opTail:
		if len(A.s) == 0 {
			return false
		}
		h.noteArgs(a)
		res = slice.Tail(A.s)
		desc = fmt.Sprintf("slice.Tail v%d", a)
	case opTake:
		n := 0
		if len(A.s) > 0 {
			n = k % (len(A.s) + 1)
		}
		h.noteArgs(a)
		res = slice.Take(n, A.s)
		desc = fmt.Sprintf("slice.Take %d v%d", n, a)
	case opSkip:
		n := 0
		if len(A.s) > 0 {
			n = k % (len(A.s) + 1)
		}
		h.noteArgs(a)
		res = slice.Skip(n, A.s)
		desc = fmt.Sprintf("slice.Skip %d v%d", n, a)
	case opAppend:
		h.noteArgs(a, b)
		res = slice.Append(A.s, B.s)
		desc = fmt.Sprintf("slice.Append v%d v%d", a, b)
		deps = []int{a, b}
	case opConcat:
		c := h.pool[k%len(h.pool)]
		h.noteArgs(a, b, c.id)
		res = slice.Concat([][]T{A.s, B.s, c.s})
		desc = fmt.Sprintf("slice.Concat [v%d; v%d; v%d]", a, b, c.id)
		deps = []int{a, b, c.id}
	case opMap:
		h.noteArgs(a)
		res = slice.Map(kit.mapf(k), A.s)
		desc = fmt.Sprintf("slice.Map f%d v%d", k%4, a)
	case opMapi:
		h.noteArgs(a)
		f := kit.mapf(k)
		res = slice.Mapi(func(i int, e T) T {
			if i%2 == 0 {
				return f(e)
			}
			return e
		}, A.s)
		desc = fmt.Sprintf("slice.Mapi g%d v%d", k%4, a)
	case opFilter:
		h.noteArgs(a)
		res = slice.Filter(kit.pred(k), A.s)
		desc = fmt.Sprintf("slice.Filter p%d v%d", k%4, a)
	case opSort:
		if kit.sortFn == nil {
			return false
		}
		h.noteArgs(a)
		res = kit.sortFn(A.s)
		desc = fmt.Sprintf("slice.Sort v%d", a)
	case opSortBy:
		h.noteArgs(a)
		neg := k%2 == 1
		res = slice.SortBy(func(e T) int {
			if neg {
				return -kit.key(e)
			}
			return kit.key(e)
		}, A.s)
		desc = fmt.Sprintf("slice.SortBy key%d v%d", k%2, a)
	case opDistinct:
		h.noteArgs(a)
		res = slice.Distinct(A.s)
		desc = fmt.Sprintf("slice.Distinct v%d", a)
	case opZip:
		if len(A.s) != len(B.s) {
			return false
		}
		h.noteArgs(a, b)
		z := slice.Zip(A.s, B.s)
		desc = fmt.Sprintf("slice.Zip v%d v%d", a, b)
		h.zpool = append(h.zpool, &zval[T]{s: z, snap: clone(z), origin: desc, deps: []int{a, b}})
		produced = false
	case opCollect:
		h.noteArgs(a, b)
		mode := k % 3
		res = slice.Collect(func(e T) []T {
			switch mode {
			case 0:
				return B.s // an existing value handed back by the user function
			case 1:
				return []T{e, e}
			default:
				if kit.pred(k)(e) {
					return nil
				}
				return A.s
			}
		}, A.s)
		desc = fmt.Sprintf("slice.Collect c%d(v%d) v%d", mode, b, a)
		deps = []int{a, b}
	case opIter:
		h.noteArgs(a)
		n := 0
		slice.Iter(func(e T) { n++ }, A.s)
		desc = fmt.Sprintf("slice.Iter _ v%d", a)
		produced = false
	case opFold:
		h.noteArgs(a)
		// a folder that builds a slice through the library itself
		res = slice.Fold(func(acc []T, e T) []T { return slice.PushLast(e, acc) }, slice.New[T](), A.s)
		desc = fmt.Sprintf("slice.Fold (fun acc e -> slice.PushLast e acc) (slice.New ()) v%d", a)
	case opScan:
		h.noteArgs(a)
		p := kit.pred(k)
		_ = slice.Forall(p, A.s)
		_ = slice.Forany(p, A.s)
		_ = slice.TryFind(p, A.s)
		desc = fmt.Sprintf("slice.Forall/Forany/TryFind p%d v%d", k%4, a)
		produced = false
	case opRead:
		h.noteArgs(a)
		_ = slice.Length(A.s)
		_ = slice.Len(A.s)
		_ = slice.IsEmpty(A.s)
		_ = slice.IsNotEmpty(A.s)
		if len(A.s) > 0 {
			_ = slice.Head(A.s)
			_ = slice.Last(A.s)
			_ = slice.Item(k%len(A.s), A.s)
		}
		desc = fmt.Sprintf("slice.Length/Item/Head/Last v%d", a)
		produced = false
	}
	h.st.calls++
	h.st.perOp[name]++
	h.hist = h.hist*1099511628211 ^ uint64(op*1000003+a*1009+b*31+k)
	if produced {
		nv := h.add(res, name, desc, deps)
		h.log = append(h.log, fmt.Sprintf("v%d = %s", nv.id, desc))
	} else {
		h.log = append(h.log, desc)
	}
	h.check(name, desc, deps)
	return true
}

// pickArg prefers recently made values and values that share / have spare capacity.
func (h *history[T]) pickArg(r *rng) int {
	n := len(h.pool)
	switch r.intn(10) {
	case 0, 1, 2, 3:
		k := 4
		if n < k {
			k = n
		}
		return n - 1 - r.intn(k)
	case 4, 5, 6:
		for try := 0; try < 6; try++ {
			i := r.intn(n)
			if cap(h.pool[i].s) > len(h.pool[i].s) {
				return i
			}
		}
	}
	return r.intn(n)
}

var opWeights = [...]int{1, 3, 14, 5, 8, 6, 7, 4, 4, 2, 3, 2, 4, 3, 3, 2, 2, 2, 1, 2, 1, 1}

func runHistory[T comparable](kit *elemKit[T], r *rng, nCalls int, st *pureStats) (nontrivial bool, hsh uint64, failed bool) {
	h := &history[T]{kit: kit, st: st}
	h.apply(opLit, 0, 0, 3+r.intn(2)) // pool must be non-empty; apply ignores a,b for Lit
	tw := 0
	for _, w := range opWeights {
		tw += w
	}
	for c := 0; c < nCalls; c++ {
		for try := 0; try < 8; try++ {
			x := r.intn(tw)
			op := 0
			for i, w := range opWeights {
				if x < w {
					op = i
					break
				}
				x -= w
			}
			a, b := h.pickArg(r), h.pickArg(r)
			// keep values short: long arguments go to shrinking operations
			if len(h.pool[a].s) > 14 && (op == opAppend || op == opConcat || op == opCollect || op == opPushLast || op == opPushHead) {
				op = []int{opPopLast, opTail, opTake, opSkip, opFilter}[r.intn(5)]
			}
			if h.apply(op, a, b, r.intn(1<<20)) {
				break
			}
		}
	}
	return h.nontr, h.hist, h.failed
}

// exhaustive: all call sequences of length <= depth over the starting values.
func runExhaustive[T comparable](kit *elemKit[T], depth int, st *pureStats) (seqs, nontriv int64) {
	unary := []int{opPushLast, opPushHead, opPopLast, opTail, opTake, opSkip, opMap, opFilter, opSort, opSortBy, opDistinct, opFold, opMapi}
	binary := []int{opAppend, opZip, opCollect, opConcat}
	type step struct{ op, a, b, k int }
	var rec func(prefix []step, d int)
	replay := func(steps []step) {
		h := &history[T]{kit: kit, st: st}
		// starting values, all obtained the way a Folang program obtains them
		h.apply(opLit, 0, 0, 3)  // v0: literal, cap == len
		h.apply(opLit, 0, 0, 4)  // v1: literal of 4
		h.apply(opTake, 1, 1, 3) // v2 = Take 3 v1 (append growth leaves spare capacity)
		for _, s := range steps {
			if s.a >= len(h.pool) || s.b >= len(h.pool) {
				return
			}
			h.apply(s.op, s.a, s.b, s.k)
		}
		seqs++
		if h.nontr {
			nontriv++
		}
	}
	rec = func(prefix []step, d int) {
		if len(prefix) > 0 {
			replay(prefix)
		}
		if d == 0 {
			return
		}
		// number of pool values available to the next step: 3 start values + one
		// per producing step so far (upper bound; replay skips invalid indices)
		m := 3
		for _, s := range prefix {
			if s.op != opZip {
				m++
			}
		}
		for _, op := range unary {
			if op == opSort && kit.sortFn == nil {
				continue
			}
			for a := 0; a < m; a++ {
				ks := []int{1}
				if op == opTake || op == opSkip {
					ks = []int{1, 2}
				}
				for _, k := range ks {
					rec(append(prefix[:len(prefix):len(prefix)], step{op, a, a, k}), d-1)
				}
			}
		}
		for _, op := range binary {
			for a := 0; a < m; a++ {
				for b := 0; b < m; b++ {
					rec(append(prefix[:len(prefix):len(prefix)], step{op, a, b, 0}), d-1)
				}
			}
		}
	}
	rec(nil, depth)
	return seqs, nontriv
}

type recT struct {
	A int
	B string
}

func intKit() *elemKit[int] {
	return &elemKit[int]{name: "int",
		fresh:  func(n int) int { return 100 + n },
		small:  func(r *rng) int { return r.intn(4) },
		sortFn: func(s []int) []int { return slice.Sort(s) },
		key:    func(e int) int { return e % 7 },
		pred: func(k int) func(int) bool {
			switch k % 4 {
			case 0:
				return func(e int) bool { return e%2 == 0 }
			case 1:
				return func(e int) bool { return true }
			case 2:
				return func(e int) bool { return false }
			}
			return func(e int) bool { return e%3 != 0 }
		},
		mapf: func(k int) func(int) int {
			switch k % 4 {
			case 0:
				return func(e int) int { return e + 1000 }
			case 1:
				return func(e int) int { return e }
			case 2:
				return func(e int) int { return -e }
			}
			return func(e int) int { return e % 5 }
		},
		str: func(e int) string { return fmt.Sprint(e) },
	}
}

func strKit() *elemKit[string] {
	return &elemKit[string]{name: "string",
		fresh:  func(n int) string { return fmt.Sprintf("s%d", n) },
		small:  func(r *rng) string { return []string{"", "a", "b", "ab"}[r.intn(4)] },
		sortFn: func(s []string) []string { return slice.Sort(s) },
		key:    func(e string) int { return len(e)*31 + int(fnvS(e)%5) },
		pred: func(k int) func(string) bool {
			switch k % 4 {
			case 0:
				return func(e string) bool { return fnvS(e)%2 == 0 }
			case 1:
				return func(e string) bool { return true }
			case 2:
				return func(e string) bool { return false }
			}
			return func(e string) bool { return len(e) > 2 }
		},
		mapf: func(k int) func(string) string {
			switch k % 4 {
			case 0:
				return func(e string) string { return e + "!" }
			case 1:
				return func(e string) string { return e }
			case 2:
				return func(e string) string { return "" }
			}
			return func(e string) string { return strings.ToUpper(e) }
		},
		str: func(e string) string { return fmt.Sprintf("%q", e) },
	}
}

func recKit() *elemKit[recT] {
	return &elemKit[recT]{name: "record",
		fresh: func(n int) recT { return recT{n, fmt.Sprintf("r%d", n)} },
		small: func(r *rng) recT { return recT{r.intn(3), ""} },
		key:   func(e recT) int { return e.A % 5 },
		pred: func(k int) func(recT) bool {
			switch k % 4 {
			case 0:
				return func(e recT) bool { return e.A%2 == 0 }
			case 1:
				return func(e recT) bool { return true }
			case 2:
				return func(e recT) bool { return false }
			}
			return func(e recT) bool { return e.A%3 != 0 }
		},
		mapf: func(k int) func(recT) recT {
			switch k % 4 {
			case 0:
				return func(e recT) recT { return recT{e.A + 1000, e.B} }
			case 1:
				return func(e recT) recT { return e }
			}
			return func(e recT) recT { return recT{e.A, e.B + "'"} }
		},
		str: func(e recT) string { return fmt.Sprintf("{%d %s}", e.A, e.B) },
	}
}

func fnvS(s string) uint32 {
	h := fnv.New32a()
	h.Write([]byte(s))
	return h.Sum32()
}

func mainSlicePure() {
	seed := argInt("seed", 1)
	n := argInt("n", 2000)
	depth := argInt("depth", 3)
	workers := argInt("workers", 8)
	var evals, nontriv int64
	distinct := sync.Map{}
	var dcount int64
	total := &pureStats{perOp: map[string]int64{}}
	var mu sync.Mutex
	merge := func(s *pureStats) {
		mu.Lock()
		total.calls += s.calls
		total.spareArgCalls += s.spareArgCalls
		total.sharedArgCalls += s.sharedArgCalls
		total.valuesMade += s.valuesMade
		total.spareValues += s.spareValues
		total.checks += s.checks
		if s.maxPool > total.maxPool {
			total.maxPool = s.maxPool
		}
		for k, v := range s.perOp {
			total.perOp[k] += v
		}
		mu.Unlock()
	}
	var wg sync.WaitGroup
	for w := 0; w < workers; w++ {
		wg.Add(1)
		go func(w int) {
			defer wg.Done()
			st := &pureStats{perOp: map[string]int64{}}
			for i := w; i < n; i += workers {
				r := newRng(uint64(seed)*1000003 + uint64(i))
				nCalls := 30 + r.intn(171)
				var nt bool
				var hs uint64
				switch i % 3 {
				case 0:
					nt, hs, _ = runHistory(intKit(), r, nCalls, st)
				case 1:
					nt, hs, _ = runHistory(strKit(), r, nCalls, st)
				default:
					nt, hs, _ = runHistory(recKit(), r, nCalls, st)
				}
				atomic.AddInt64(&evals, 1)
				if nt {
					atomic.AddInt64(&nontriv, 1)
					if _, loaded := distinct.LoadOrStore(hs, true); !loaded {
						atomic.AddInt64(&dcount, 1)
					}
				}
			}
			merge(st)
		}(w)
	}
	wg.Wait()
	// exhaustive sweep (int and string elements)
	st := &pureStats{perOp: map[string]int64{}}
	s1, n1 := runExhaustive(intKit(), depth, st)
	sd := depth
	if sd > 2 && argInt("exhstr", 0) != 1 {
		sd = 2
	}
	s2, n2 := runExhaustive(strKit(), sd, st)
	merge(st)
	stat("random_histories", evals)
	stat("random_histories_with_spare_or_shared_argument", nontriv)
	stat("exhaustive_sequences", s1+s2)
	stat("exhaustive_depth", depth)
	stat("library_calls", total.calls)
	stat("calls_with_spare_capacity_argument", total.spareArgCalls)
	stat("calls_with_argument_sharing_a_backing_array", total.sharedArgCalls)
	stat("slice_values_created", total.valuesMade)
	stat("values_created_with_spare_capacity", total.spareValues)
	stat("max_live_values_in_one_history", total.maxPool)
	stat("value_rechecks", total.checks)
	stat("calls_per_function", total.perOp)
	// one sample history, written out
	{
		st := &pureStats{perOp: map[string]int64{}}
		h := &history[int]{kit: intKit(), st: st}
		r := newRng(uint64(seed))
		h.apply(opLit, 0, 0, 3)
		for c := 0; c < 12; c++ {
			for try := 0; try < 8; try++ {
				if h.apply(1+r.intn(numOps-1), h.pickArg(r), h.pickArg(r), r.intn(1000)) {
					break
				}
			}
		}
		sample(map[string]any{"kind": "history (first 12 calls of one random history, int elements)", "calls": h.log})
	}
	stat("exhaustive_sequences_with_spare_or_shared_argument", n1+n2)
	nn := nestedPurity()
	stat("nested_slice_values_x_functions", nn)
	done(evals+s1+s2+nn, dcount+n1+n2+nn)
}

// nestedPurity: a slice of slices is a slice value too. Every outer value made of 1..4 inner
// slices drawn from {[], [1], [1 2]} (so: empty chunks in every position), once with cap == len and
// once as the PopLast prefix of a longer outer value (spare capacity, a sibling sharing the array),
// is handed to every function that takes it; afterwards the outer value, its inner slices and the
// sibling must read exactly as before.
func nestedPurity() int64 {
	inner := [][]int{{}, {1}, {1, 2}}
	type snap struct {
		n    int
		rows [][]int
	}
	take := func(v [][]int) snap {
		s := snap{n: len(v)}
		for _, r := range v {
			s.rows = append(s.rows, append([]int{}, r...))
		}
		return s
	}
	same := func(v [][]int, s snap) bool {
		if len(v) != s.n {
			return false
		}
		for i := range v {
			if len(v[i]) != len(s.rows[i]) {
				return false
			}
			for j := range v[i] {
				if v[i][j] != s.rows[i][j] {
					return false
				}
			}
		}
		return true
	}
	fns := []struct {
		name string
		f    func(v [][]int)
	}{
		{"Concat", func(v [][]int) { slice.Concat(v) }},
		{"Collect", func(v [][]int) { slice.Collect(func(r []int) []int { return r }, v) }},
		{"Map", func(v [][]int) { slice.Map(func(r []int) int { return len(r) }, v) }},
		{"Filter", func(v [][]int) { slice.Filter(func(r []int) bool { return len(r) > 0 }, v) }},
		{"Append", func(v [][]int) { slice.Append(v, v) }},
		{"PushLast", func(v [][]int) { slice.PushLast([]int{9}, v) }},
		{"PushHead", func(v [][]int) { slice.PushHead([]int{9}, v) }},
		{"Take", func(v [][]int) { slice.Take(len(v)/2, v) }},
		{"Skip", func(v [][]int) { slice.Skip(len(v)/2, v) }},
		{"Tail", func(v [][]int) { slice.Tail(v) }},
		{"PopLast", func(v [][]int) { slice.PopLast(v) }},
		{"Zip", func(v [][]int) { slice.Zip(v, v) }},
		{"Fold", func(v [][]int) { slice.Fold(func(a int, r []int) int { return a + len(r) }, 0, v) }},
		{"Forall", func(v [][]int) { slice.Forall(func(r []int) bool { return true }, v) }},
		{"TryFind", func(v [][]int) { slice.TryFind(func(r []int) bool { return len(r) == 2 }, v) }},
		{"Mapi", func(v [][]int) { slice.Mapi(func(i int, r []int) int { return i + len(r) }, v) }},
		{"Length", func(v [][]int) { slice.Length(v) }},
		{"Last", func(v [][]int) { slice.Last(v) }},
	}
	var count int64
	var rec func(cur []int)
	rec = func(cur []int) {
		if len(cur) > 0 {
			for _, fn := range fns {
				for variant := 0; variant < 2; variant++ {
					// fresh values for every call
					var v, sibling [][]int
					if variant == 0 {
						for _, k := range cur {
							v = append(v, append([]int{}, inner[k]...))
						}
						v = v[:len(v):len(v)]
					} else {
						longer := make([][]int, 0, len(cur)+2)
						for _, k := range cur {
							longer = append(longer, append([]int{}, inner[k]...))
						}
						longer = append(longer, []int{7, 7})
						sibling = longer
						v = slice.PopLast(longer)
					}
					sv, ss := take(v), take(sibling)
					func() {
						defer func() { recover() }()
						fn.f(v)
					}()
					count++
					if !same(v, sv) {
						viol("nested-mutated-by:"+fn.name, "slice."+fn.name+" changed a slice of slices it was given", map[string]any{"before": sv.rows, "after": v, "variant": variant})
					}
					if variant == 1 && !same(sibling, ss) {
						viol("nested-sibling-mutated-by:"+fn.name, "slice."+fn.name+" changed a value sharing the outer array of its argument", map[string]any{"before": ss.rows, "after": sibling})
					}
				}
			}
		}
		if len(cur) == 4 {
			return
		}
		for k := range inner {
			rec(append(append([]int{}, cur...), k))
		}
	}
	rec(nil)
	return count
}
