package main

import "verifharness/eqh/eqh"

func main() { eqh.Run() }
