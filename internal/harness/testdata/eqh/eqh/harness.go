// C10 monitor. Compiled in the same package as the Go that the rebuilt fc emits
// for eq_types.fo, so the compared values have the real representation (records
// with lower-case fields, unions as interface + case structs, frt tuples).
package eqh

import (
	"bufio"
	"encoding/json"
	"fmt"
	"os"
	"strconv"

	"github.com/karino2/folang/pkg/frt"
	"github.com/karino2/folang/pkg/slice"
)

var out = bufio.NewWriterSize(os.Stdout, 1<<16)
var nViol = 0

func emit(m map[string]any) {
	b, _ := json.Marshal(m)
	out.Write(b)
	out.WriteByte('\n')
}

func viol(sig, what string, detail any) {
	nViol++
	if nViol > 150 {
		return
	}
	emit(map[string]any{"t": "viol", "sig": sig, "what": what, "detail": detail})
}

// val is one value of type T with its canonical form and the path that built it.
type val[T any] struct {
	canon string
	path  string
	v     T
}

var evals, distinct int64
var perType = map[string]int64{}
var panics = map[string]int64{}

func try[T any](f func(T, T) bool, a, b T) (res bool, p any) {
	defer func() {
		if r := recover(); r != nil {
			p = fmt.Sprint(r)
		}
	}()
	return f(a, b), nil
}

// checkType runs all pairs of vs through eq / ne (frt.OpEqual / OpNotEqual or the
// emitted Folang functions) and checks totality, agreement with canonical-form
// equality, reflexivity, symmetry, negation and transitivity.
// -only K: this process compares family number K only (so that it is the FIRST comparison the
// process ever makes: state kept between comparisons cannot help), in reverse value order.
var onlyFam, famIdx = -1, -1

func checkType[T any](tname string, vs []val[T], eq, ne func(T, T) bool, triples int) {
	famIdx++
	if onlyFam >= 0 {
		if famIdx != onlyFam {
			return
		}
		tname += " (first comparison of the process)"
		rv := make([]val[T], len(vs))
		for i := range vs {
			rv[len(vs)-1-i] = vs[i]
		}
		vs = rv
		triples = 0
	}
	n := len(vs)
	got := make([][]int8, n) // 1 true, 0 false, -1 panic
	for i := range got {
		got[i] = make([]int8, n)
	}
	for i := 0; i < n; i++ {
		for j := 0; j < n; j++ {
			evals++
			perType[tname]++
			if vs[i].path != vs[j].path || i == j {
				distinct++
			}
			in := fmt.Sprintf("%s: %s [%s]  vs  %s [%s]", tname, vs[i].canon, vs[i].path, vs[j].canon, vs[j].path)
			g, p := try(eq, vs[i].v, vs[j].v)
			want := vs[i].canon == vs[j].canon
			switch {
			case p != nil:
				got[i][j] = -1
				panics[tname]++
				viol("equality-panics:"+tname, "a = b panics on "+tname, map[string]any{"input": in, "panic": p})
			case g != want:
				viol("equality-wrong:"+tname+":"+strconv.FormatBool(want), fmt.Sprintf("a = b is %v where structural equality is %v on %s", g, want, tname), map[string]any{"input": in})
				if g {
					got[i][j] = 1
				}
			default:
				if g {
					got[i][j] = 1
				}
			}
			if ne != nil {
				g2, p2 := try(ne, vs[i].v, vs[j].v)
				if p2 != nil {
					viol("inequality-panics:"+tname, "a <> b panics on "+tname, map[string]any{"input": in, "panic": p2})
				} else if p == nil && g2 == g {
					viol("inequality-not-negation:"+tname, "a <> b is not the negation of a = b on "+tname, map[string]any{"input": in})
				}
			}
		}
	}
	for i := 0; i < n; i++ {
		if got[i][i] == 0 {
			viol("not-reflexive:"+tname, "a = a is false on "+tname, map[string]any{"input": vs[i].canon + " [" + vs[i].path + "]"})
		}
		for j := 0; j < i; j++ {
			if got[i][j] != got[j][i] {
				viol("not-symmetric:"+tname, "a = b differs from b = a on "+tname, map[string]any{"input": vs[i].canon + " / " + vs[j].canon})
			}
		}
	}
	// transitivity over all triples when small, a strided sample otherwise
	step := 1
	if n*n*n > triples && triples > 0 {
		step = n*n*n/triples + 1
	}
	k := 0
	for a := 0; a < n; a++ {
		for b := 0; b < n; b++ {
			if got[a][b] != 1 {
				continue
			}
			for c := 0; c < n; c++ {
				k++
				if k%step != 0 {
					continue
				}
				evals++
				if got[b][c] == 1 && got[a][c] == 0 {
					viol("not-transitive:"+tname, "a = b and b = c but not a = c on "+tname, map[string]any{"a": vs[a].canon, "b": vs[b].canon, "c": vs[c].canon})
				}
			}
		}
	}
}

// ---- value families ---------------------------------------------------------------

func ints() []val[int] {
	var vs []val[int]
	for _, i := range []int{0, 1, -1, 7, 1 << 40} {
		vs = append(vs, val[int]{fmt.Sprint(i), "literal", i})
	}
	vs = append(vs, val[int]{"7", "3+4", 3 + 4})
	return vs
}

func strs() []val[string] {
	var vs []val[string]
	for _, s := range []string{"", "a", "ab", "A", "a b", "日本"} {
		vs = append(vs, val[string]{strconv.Quote(s), "literal", s})
	}
	vs = append(vs, val[string]{`"ab"`, "a+b", "a" + string([]byte{'b'})})
	return vs
}

func bools() []val[bool] {
	return []val[bool]{{"true", "literal", true}, {"false", "literal", false}, {"true", "1<2", 1 < 2}}
}

// intSlices materialises each element list along several library paths.
func intSlices(depth int) []val[[]int] {
	lists := [][]int{{}, {1}, {2}, {1, 2}, {2, 1}, {1, 2, 3}, {1, 1}, {0}}
	if depth > 2 {
		lists = append(lists, []int{1, 2, 3, 4}, []int{3, 2, 1}, []int{0, 0, 0})
	}
	var vs []val[[]int]
	for _, l := range lists {
		c := fmt.Sprint(l)
		cp := append([]int{}, l...)
		vs = append(vs, val[[]int]{c, "literal", cp})
		// through slice.New + PushLast
		s := slice.New[int]()
		for _, e := range l {
			s = slice.PushLast(e, s)
		}
		vs = append(vs, val[[]int]{c, "New+PushLast", s})
		// Filter keeping everything of a longer slice's prefix
		longer := append(append([]int{}, l...), 99, 98)
		vs = append(vs, val[[]int]{c, "Filter", slice.Filter(func(e int) bool { return e < 90 }, longer)})
		vs = append(vs, val[[]int]{c, "Take", slice.Take(len(l), longer)})
		vs = append(vs, val[[]int]{c, "Skip", slice.Skip(2, append([]int{77, 78}, l...))})
		vs = append(vs, val[[]int]{c, "Tail", slice.Tail(append([]int{55}, l...))})
		vs = append(vs, val[[]int]{c, "PopLast", slice.PopLast(append(append([]int{}, l...), 44))})
		vs = append(vs, val[[]int]{c, "Map", slice.Map(func(e int) int { return e - 1 }, slice.Map(func(e int) int { return e + 1 }, cp))})
		vs = append(vs, val[[]int]{c, "Append", slice.Append(cp, slice.New[int]())})
		if len(l) == 0 {
			var nilS []int
			vs = append(vs, val[[]int]{c, "nil", nilS})
			vs = append(vs, val[[]int]{c, "Concat-of-nothing", slice.Concat([][]int{})})
			vs = append(vs, val[[]int]{c, "Distinct-of-empty", slice.Distinct([]int{})})
			vs = append(vs, val[[]int]{c, "Sort-of-empty", slice.Sort([]int{})})
		}
	}
	// views of ONE array: the value, its PopLast prefixes (same start, shorter), its Tail (other
	// start), and a value-equal copy of each - equality is about contents and length, not identity
	for _, base := range [][]int{{1, 2, 3}, {1, 1, 1}, {2, 1}} {
		x := append([]int{}, base...)
		cur := x
		for len(cur) > 0 {
			vs = append(vs, val[[]int]{fmt.Sprint(cur), fmt.Sprintf("view-of-shared-array/len%d", len(cur)), cur})
			vs = append(vs, val[[]int]{fmt.Sprint(cur), fmt.Sprintf("copy-of-view/len%d", len(cur)), append([]int{}, cur...)})
			cur = slice.PopLast(cur)
		}
		vs = append(vs, val[[]int]{fmt.Sprint(x[1:]), "view-of-shared-array/Tail", slice.Tail(x)})
	}
	return vs
}

func strSlices() []val[[]string] {
	var vs []val[[]string]
	for _, l := range [][]string{{}, {""}, {"a"}, {"a", "b"}, {"b", "a"}, {"", ""}} {
		c := fmt.Sprintf("%q", l)
		vs = append(vs, val[[]string]{c, "literal", append([]string{}, l...)})
		vs = append(vs, val[[]string]{c, "Filter", slice.Filter(func(e string) bool { return e != "zz" }, append(append([]string{}, l...), "zz"))})
		if len(l) == 0 {
			vs = append(vs, val[[]string]{c, "nil", nil})
			vs = append(vs, val[[]string]{c, "New", slice.New[string]()})
		}
	}
	return vs
}

func pick[T any](vs []val[T], idx ...int) []val[T] {
	var out []val[T]
	for _, i := range idx {
		if i < len(vs) {
			out = append(out, vs[i])
		}
	}
	return out
}

// sample takes every k-th value (always keeping the first ones) to bound products.
func sample[T any](vs []val[T], max int) []val[T] {
	if len(vs) <= max {
		return vs
	}
	var out []val[T]
	step := float64(len(vs)) / float64(max)
	for i := 0; i < max; i++ {
		out = append(out, vs[int(float64(i)*step)])
	}
	return out
}

func rlows() []val[RLow] {
	var vs []val[RLow]
	for _, a := range pick(ints(), 0, 1, 3, 5) {
		for _, b := range pick(strs(), 0, 1, 2, 6) {
			vs = append(vs, val[RLow]{"RLow{" + a.canon + "," + b.canon + "}", a.path + "/" + b.path, RLow{a: a.v, b: b.v}})
		}
	}
	return vs
}

func rups() []val[RUp] {
	var vs []val[RUp]
	for _, a := range pick(ints(), 0, 1, 3, 5) {
		for _, b := range pick(strs(), 0, 1, 6) {
			vs = append(vs, val[RUp]{"RUp{" + a.canon + "," + b.canon + "}", a.path + "/" + b.path, RUp{A: a.v, B: b.v}})
		}
	}
	return vs
}

func rmixes(depth int) []val[RMix] {
	var vs []val[RMix]
	for _, a := range pick(ints(), 0, 1) {
		for _, b := range bools() {
			for _, c := range sample(intSlices(depth), 24) {
				vs = append(vs, val[RMix]{"RMix{" + a.canon + "," + b.canon + "," + c.canon + "}", a.path + "/" + b.path + "/" + c.path, RMix{A: a.v, b: b.v, C: c.v}})
			}
		}
	}
	return sample(vs, 90)
}

func tups() []val[frt.Tuple2[int, string]] {
	var vs []val[frt.Tuple2[int, string]]
	for _, a := range pick(ints(), 0, 1, 3, 5) {
		for _, b := range pick(strs(), 0, 1, 2, 6) {
			vs = append(vs, val[frt.Tuple2[int, string]]{"(" + a.canon + "," + b.canon + ")", a.path + "/" + b.path, frt.NewTuple2(a.v, b.v)})
		}
	}
	return vs
}

func tup3s(depth int) []val[frt.Tuple3[int, []int, RLow]] {
	var vs []val[frt.Tuple3[int, []int, RLow]]
	for _, a := range pick(ints(), 0, 3) {
		for _, b := range sample(intSlices(depth), 14) {
			for _, c := range pick(rlows(), 0, 5, 15) {
				vs = append(vs, val[frt.Tuple3[int, []int, RLow]]{"(" + a.canon + "," + b.canon + "," + c.canon + ")", a.path + "/" + b.path + "/" + c.path, frt.NewTuple3(a.v, b.v, c.v)})
			}
		}
	}
	return vs
}

func unions(depth int) []val[U] {
	var vs []val[U]
	for _, a := range pick(ints(), 0, 1, 3, 5) {
		vs = append(vs, val[U]{"UA(" + a.canon + ")", "New_U_UA/" + a.path, New_U_UA(a.v)})
		vs = append(vs, val[U]{"UA(" + a.canon + ")", "struct/" + a.path, U_UA{a.v}})
	}
	vs = append(vs, val[U]{"UB", "New_U_UB", New_U_UB}, val[U]{"UB", "struct", U_UB{}}, val[U]{"UE", "New_U_UE", New_U_UE})
	for _, r := range pick(rlows(), 0, 1, 5, 15) {
		vs = append(vs, val[U]{"UC(" + r.canon + ")", "New_U_UC/" + r.path, New_U_UC(r.v)})
	}
	for _, s := range sample(intSlices(depth), 20) {
		vs = append(vs, val[U]{"UD(" + s.canon + ")", "New_U_UD/" + s.path, New_U_UD(s.v)})
	}
	return vs
}

func unionSlices(depth int) []val[[]U] {
	us := sample(unions(depth), 10)
	var vs []val[[]U]
	vs = append(vs, val[[]U]{"[]", "nil", nil}, val[[]U]{"[]", "New", slice.New[U]()})
	for i, a := range us {
		vs = append(vs, val[[]U]{"[" + a.canon + "]", a.path, []U{a.v}})
		b := us[(i+3)%len(us)]
		vs = append(vs, val[[]U]{"[" + a.canon + " " + b.canon + "]", a.path + "," + b.path, []U{a.v, b.v}})
		vs = append(vs, val[[]U]{"[" + a.canon + " " + b.canon + "]", "PushLast:" + a.path + "," + b.path, slice.PushLast(b.v, []U{a.v})})
	}
	return vs
}

func nests(depth int) []val[RNest] {
	var vs []val[RNest]
	ups := rups()
	itemLists := []val[[]RUp]{{"[]", "nil", nil}, {"[]", "New", slice.New[RUp]()}, {"[]", "Filter", slice.Filter(func(r RUp) bool { return false }, []RUp{ups[0].v})},
		{"[" + ups[0].canon + "]", "literal", []RUp{ups[0].v}}, {"[" + ups[0].canon + "]", "Take", slice.Take(1, []RUp{ups[0].v, ups[1].v})},
		{"[" + ups[0].canon + " " + ups[4].canon + "]", "literal", []RUp{ups[0].v, ups[4].v}}}
	for _, in := range pick(rlows(), 0, 5, 15) {
		for _, it := range itemLists {
			for _, t := range pick(tups(), 0, 5, 15) {
				vs = append(vs, val[RNest]{"RNest{" + in.canon + "," + it.canon + "," + t.canon + "}", in.path + "/" + it.path + "/" + t.path, RNest{In: in.v, Items: it.v, T: t.v}})
			}
		}
	}
	return vs
}

func boxes() []val[GBox[int]] {
	var vs []val[GBox[int]]
	for _, a := range pick(ints(), 0, 1, 3, 5) {
		for _, n := range pick(ints(), 0, 1) {
			vs = append(vs, val[GBox[int]]{"GBox{" + a.canon + "," + n.canon + "}", a.path + "/" + n.path, GBox[int]{Item: a.v, n: n.v}})
		}
	}
	return vs
}

func sboxes(depth int) []val[GBox[[]int]] {
	var vs []val[GBox[[]int]]
	for _, a := range sample(intSlices(depth), 30) {
		vs = append(vs, val[GBox[[]int]]{"GBox{" + a.canon + ",0}", a.path, GBox[[]int]{Item: a.v, n: 0}})
	}
	return vs
}

func opts() []val[GOpt[RLow]] {
	var vs []val[GOpt[RLow]]
	vs = append(vs, val[GOpt[RLow]]{"GNone", "New_GOpt_GNone", New_GOpt_GNone[RLow]()}, val[GOpt[RLow]]{"GNone", "struct", GOpt_GNone[RLow]{}})
	for _, r := range pick(rlows(), 0, 1, 5, 15) {
		vs = append(vs, val[GOpt[RLow]]{"GSome(" + r.canon + ")", "New_GOpt_GSome/" + r.path, New_GOpt_GSome(r.v)})
	}
	return vs
}

// records, tuples and union payloads that CONTAIN union values (also the same case with
// a slice payload on both sides: the struct is statically comparable, its contents are not)
func rus(depth int) []val[RU] {
	us := sample(unions(depth), 16)
	var vs []val[RU]
	for i, a := range us {
		for _, tag := range []string{"t", "u"} {
			b := us[(i*7+3)%len(us)]
			vs = append(vs, val[RU]{"RU{" + tag + "," + a.canon + "," + b.canon + "}", a.path + "/" + b.path, RU{Tag: tag, Sh: a.v, low: b.v}})
		}
		// the same union value in both positions
		vs = append(vs, val[RU]{"RU{t," + a.canon + "," + a.canon + "}", "same:" + a.path, RU{Tag: "t", Sh: a.v, low: a.v}})
	}
	return vs
}

func tupUs(depth int) []val[frt.Tuple2[int, U]] {
	var vs []val[frt.Tuple2[int, U]]
	for _, a := range sample(unions(depth), 24) {
		for _, i := range pick(ints(), 1, 3) {
			vs = append(vs, val[frt.Tuple2[int, U]]{"(" + i.canon + "," + a.canon + ")", i.path + "/" + a.path, frt.NewTuple2(i.v, a.v)})
		}
	}
	return vs
}

func ws(depth int) []val[W] {
	var vs []val[W]
	vs = append(vs, val[W]{"WN", "New_W_WN", New_W_WN})
	for _, a := range sample(unions(depth), 20) {
		vs = append(vs, val[W]{"WU(" + a.canon + ")", "New_W_WU/" + a.path, New_W_WU(a.v)})
		vs = append(vs, val[W]{"WT(1," + a.canon + ")", "New_W_WT/" + a.path, New_W_WT(frt.NewTuple2(1, a.v))})
	}
	return vs
}

// trees: values of the self-referential union Tr, every level built through the emitted
// constructors and, for the same canonical value, through the case structs directly
func trees(depth int) []val[Tr] {
	level := []val[Tr]{{"TNil", "New_Tr_TNil", New_Tr_TNil}, {"TNil", "struct", Tr_TNil{}}}
	for _, a := range pick(ints(), 0, 1, 3) {
		level = append(level, val[Tr]{"TLeaf(" + a.canon + ")", "New_Tr_TLeaf/" + a.path, New_Tr_TLeaf(a.v)})
	}
	level = append(level, val[Tr]{"TMany[]", "New_Tr_TMany/nil", New_Tr_TMany(nil)}, val[Tr]{"TMany[]", "New_Tr_TMany/New", New_Tr_TMany(slice.New[Tr]())},
		val[Tr]{"TMany[]", "New_Tr_TMany/Filter", New_Tr_TMany(slice.Filter(func(Tr) bool { return false }, []Tr{New_Tr_TNil}))})
	all := append([]val[Tr]{}, level...)
	for d := 1; d < depth+1; d++ {
		var next []val[Tr]
		src := sample(level, 7)
		for i, a := range src {
			b := src[(i+3)%len(src)]
			next = append(next, val[Tr]{"TNode(" + a.canon + "," + b.canon + ")", "New_Tr_TNode/" + a.path + "," + b.path, New_Tr_TNode(frt.NewTuple2(a.v, b.v))})
			next = append(next, val[Tr]{"TNode(" + a.canon + "," + b.canon + ")", "struct/" + a.path + "," + b.path, Tr_TNode{frt.NewTuple2(a.v, b.v)}})
			next = append(next, val[Tr]{"TMany[" + a.canon + "]", "New_Tr_TMany/lit/" + a.path, New_Tr_TMany([]Tr{a.v})})
			next = append(next, val[Tr]{"TMany[" + a.canon + "]", "New_Tr_TMany/PushLast/" + a.path, New_Tr_TMany(slice.PushLast(a.v, slice.New[Tr]()))})
			next = append(next, val[Tr]{"TMany[" + a.canon + " " + b.canon + "]", "New_Tr_TMany/lit/" + a.path + "," + b.path, New_Tr_TMany([]Tr{a.v, b.v})})
			for _, r := range pick(rlows(), 0, 5) {
				next = append(next, val[Tr]{"TRec(" + r.canon + "," + a.canon + ")", "New_Tr_TRec/" + r.path + "/" + a.path, New_Tr_TRec(frt.NewTuple2(r.v, a.v))})
			}
		}
		all = append(all, next...)
		level = next
	}
	return all
}

// literalOperands: = and <> whose operands are written as LITERALS in the Folang source (tuple,
// record, slice, constructor literals over parameters): whatever the compiler makes of such a
// comparison, it must be the structural one and <> its negation.
func literalOperands() {
	type fn struct {
		name string
		f    func(int, string, int, string) bool
		want func(a int, b string, c int, d string) bool
	}
	fns := []fn{
		{"(a, b) = (c, d)", EqTupLit, func(a int, b string, c int, d string) bool { return a == c && b == d }},
		{"(a, b) <> (c, d)", NeTupLit, func(a int, b string, c int, d string) bool { return !(a == c && b == d) }},
		{"(a, b, a) = (c, d, a)", EqTup3Lit, func(a int, b string, c int, d string) bool { return a == c && b == d }},
		{"(a, b, a) <> (c, d, a)", NeTup3Lit, func(a int, b string, c int, d string) bool { return !(a == c && b == d) }},
		{"{A=a; B=b} = {A=c; B=d}", EqRecLit, func(a int, b string, c int, d string) bool { return a == c && b == d }},
		{"{A=a; B=b} <> {A=c; B=d}", NeRecLit, func(a int, b string, c int, d string) bool { return !(a == c && b == d) }},
		{"[b; d] = [d; b]", EqSliceLit, func(a int, b string, c int, d string) bool { return b == d }},
		{"[a; c] <> [c; a]", NeSliceLit, func(a int, b string, c int, d string) bool { return a != c }},
		{"WT (a, UA c) = WT (c, UA a)", EqCtorLit, func(a int, b string, c int, d string) bool { return a == c }},
		{"WT (a, UA c) <> WT (c, UA a)", NeCtorLit, func(a int, b string, c int, d string) bool { return a != c }},
		{"((a, b), [c]) <> ((c, d), [a])", NeNestedLit, func(a int, b string, c int, d string) bool { return !(a == c && b == d) }},
	}
	for _, f := range fns {
		for _, a := range []int{0, 1} {
			for _, b := range []string{"", "x"} {
				for _, c := range []int{0, 1} {
					for _, d := range []string{"", "x"} {
						evals++
						distinct++
						perType["literal operands"]++
						var got bool
						var p any
						func() {
							defer func() { p = recover() }()
							got = f.f(a, b, c, d)
						}()
						in := fmt.Sprintf("%s with a=%d b=%q c=%d d=%q", f.name, a, b, c, d)
						if p != nil {
							viol("literal-operands-panic:"+f.name, "a comparison of literals panics", map[string]any{"input": in, "panic": fmt.Sprint(p)})
						} else if got != f.want(a, b, c, d) {
							viol("literal-operands-wrong:"+f.name, fmt.Sprintf("`%s` is %v where structural equality gives %v", f.name, got, f.want(a, b, c, d)), map[string]any{"input": in})
						}
					}
				}
			}
		}
	}
}

func sliceOfSlices(depth int) []val[[][]int] {
	in := sample(intSlices(depth), 16)
	var vs []val[[][]int]
	vs = append(vs, val[[][]int]{"[]", "nil", nil}, val[[][]int]{"[]", "New", slice.New[[]int]()})
	for i, a := range in {
		vs = append(vs, val[[][]int]{"[" + a.canon + "]", a.path, [][]int{a.v}})
		b := in[(i+5)%len(in)]
		vs = append(vs, val[[][]int]{"[" + a.canon + " " + b.canon + "]", a.path + "," + b.path, [][]int{a.v, b.v}})
	}
	return vs
}

func Run() {
	depth := 2
	for i, a := range os.Args {
		if a == "-depth" && i+1 < len(os.Args) {
			depth, _ = strconv.Atoi(os.Args[i+1])
		}
		if a == "-only" && i+1 < len(os.Args) {
			onlyFam, _ = strconv.Atoi(os.Args[i+1])
		}
	}
	tri := 20000
	if depth > 2 {
		tri = 400000
	}
	checkType("int", ints(), frt.OpEqual[int], frt.OpNotEqual[int], tri)
	checkType("string", strs(), frt.OpEqual[string], frt.OpNotEqual[string], tri)
	checkType("bool", bools(), frt.OpEqual[bool], frt.OpNotEqual[bool], tri)
	checkType("[]int", intSlices(depth), frt.OpEqual[[]int], frt.OpNotEqual[[]int], tri)
	checkType("[]string", strSlices(), frt.OpEqual[[]string], frt.OpNotEqual[[]string], tri)
	checkType("[][]int", sliceOfSlices(depth), frt.OpEqual[[][]int], frt.OpNotEqual[[][]int], tri)
	checkType("record RUp (upper-case fields)", rups(), frt.OpEqual[RUp], frt.OpNotEqual[RUp], tri)
	checkType("record RLow (lower-case fields)", rlows(), frt.OpEqual[RLow], frt.OpNotEqual[RLow], tri)
	checkType("record RMix (mixed case, slice field)", rmixes(depth), frt.OpEqual[RMix], frt.OpNotEqual[RMix], tri)
	checkType("record RNest (nested record, slice of records, tuple)", nests(depth), frt.OpEqual[RNest], frt.OpNotEqual[RNest], tri)
	checkType("tuple int*string", tups(), frt.OpEqual[frt.Tuple2[int, string]], frt.OpNotEqual[frt.Tuple2[int, string]], tri)
	checkType("tuple int*[]int*RLow", tup3s(depth), frt.OpEqual[frt.Tuple3[int, []int, RLow]], frt.OpNotEqual[frt.Tuple3[int, []int, RLow]], tri)
	checkType("union U", unions(depth), frt.OpEqual[U], frt.OpNotEqual[U], tri)
	checkType("[]U", unionSlices(depth), frt.OpEqual[[]U], frt.OpNotEqual[[]U], tri)
	checkType("record RU (union-typed fields, upper and lower case)", rus(depth), frt.OpEqual[RU], frt.OpNotEqual[RU], tri)
	checkType("tuple int*U", tupUs(depth), frt.OpEqual[frt.Tuple2[int, U]], frt.OpNotEqual[frt.Tuple2[int, U]], tri)
	checkType("union W (payloads containing unions)", ws(depth), frt.OpEqual[W], frt.OpNotEqual[W], tri)
	checkType("self-referential union Tr", trees(depth), frt.OpEqual[Tr], frt.OpNotEqual[Tr], tri)
	checkType("generic record GBox<int>", boxes(), frt.OpEqual[GBox[int]], frt.OpNotEqual[GBox[int]], tri)
	checkType("generic record GBox<[]int>", sboxes(depth), frt.OpEqual[GBox[[]int]], frt.OpNotEqual[GBox[[]int]], tri)
	checkType("generic union GOpt<RLow>", opts(), frt.OpEqual[GOpt[RLow]], frt.OpNotEqual[GOpt[RLow]], tri)
	// end to end through emitted Folang functions ( = and <> as fc translates them)
	checkType("Folang = / <> on int (emitted)", ints(), EqInt, NeInt, 0)
	checkType("Folang = / <> on RLow (emitted)", rlows(), EqRLow, NeRLow, 0)
	checkType("Folang = on []int (emitted)", intSlices(depth), EqSlice, nil, 0)
	checkType("Folang = on U (emitted)", unions(depth), EqU, nil, 0)
	checkType("Folang = on RNest (emitted)", nests(depth), EqNest, nil, 0)
	checkType("Folang = on int*string (emitted)", tups(), EqTup, nil, 0)
	checkType("Folang = on GBox<int> (emitted)", boxes(), EqBox, nil, 0)
	checkType("Folang = / <> on RU (emitted)", rus(depth), EqRU, NeRU, 0)
	checkType("Folang = on W (emitted)", ws(depth), EqW, nil, 0)
	checkType("Folang = on int*U (emitted)", tupUs(depth), EqTupU, nil, 0)
	checkType("Folang = / <> on Tr (emitted)", trees(depth), EqTr, NeTr, 0)
	if onlyFam < 0 {
		literalOperands()
	}
	if onlyFam >= 0 {
		emit(map[string]any{"t": "stat", "k": fmt.Sprintf("isolated_family_%02d", onlyFam), "v": perType})
		emit(map[string]any{"t": "done", "evals": evals, "distinct": distinct})
		out.Flush()
		return
	}
	emit(map[string]any{"t": "stat", "k": "families", "v": famIdx + 1})
	emit(map[string]any{"t": "stat", "k": "pairs_per_type", "v": perType})
	emit(map[string]any{"t": "stat", "k": "types", "v": len(perType)})
	emit(map[string]any{"t": "stat", "k": "panics_per_type", "v": panics})
	emit(map[string]any{"t": "sample", "v": "[]int [1 2] built as literal vs slice.Filter result vs slice.Take result vs New+PushLast"})
	emit(map[string]any{"t": "sample", "v": "RLow{a:7,b:\"ab\"} vs RLow{a:3+4,b:\"a\"+\"b\"}"})
	emit(map[string]any{"t": "sample", "v": "RNest{In:RLow{0,\"\"}, Items:nil, T:(0,\"\")} vs the same with Items = slice.Filter(false) / slice.New"})
	emit(map[string]any{"t": "done", "evals": evals, "distinct": distinct})
	out.Flush()
}
