package fo

import (
	"fmt"
	"strings"
)

// Layout supplies the independent layout decisions of the printer. The
// canonical layout answers 0 / 2 / "" everywhere.
type Layout interface {
	Indent(site string) string               // white space added for a nested block (canonical: two spaces)
	Choice(site string, n int) int           // pick one of n equivalent layouts (canonical: 0)
	Filler(site string, col string) []string // extra lines (blank / comment lines) before a statement
	Trailer(site string) string              // text appended to a line end (trailing spaces / comment)
}

type Canonical struct{}

func (Canonical) Indent(string) string           { return "  " }
func (Canonical) Choice(string, int) int         { return 0 }
func (Canonical) Filler(string, string) []string { return nil }
func (Canonical) Trailer(string) string          { return "" }

type printer struct {
	lay   Layout
	lines []string
	tiny  bool
}

func Print(p *Program, lay Layout) string {
	if lay == nil {
		lay = Canonical{}
	}
	pr := &printer{lay: lay, tiny: p.Tiny}
	pr.emit("", "package "+p.Pkg, "pkg")
	if len(p.Imports) > 0 {
		pr.blank()
		for _, im := range p.Imports {
			if strings.Contains(im, "/") || strings.HasPrefix(im, "\"") {
				pr.emit("", "import "+im, "import")
			} else {
				pr.emit("", "import "+im, "import")
			}
		}
	}
	for _, d := range p.Decls {
		pr.blank()
		pr.decl(d)
	}
	text := strings.Join(pr.lines, "\n")
	// how the file ends is layout too: with or without a final newline, after a last line that holds
	// only a comment or only spaces (longer than the indentation of the last block), extra blank lines
	switch lay.Choice("file-end", 9) {
	case 1:
		return text
	case 2:
		return text + "\n// end of file"
	case 3:
		return text + "\n  // done"
	case 4:
		return text + "\n/* end of file */"
	case 5:
		return text + "\n        "
	case 6:
		return text + "\n\n\n"
	case 7:
		return text + " "
	case 8:
		return text + "\n\t"
	}
	return text + "\n"
}

// PrintDecl renders one declaration alone (canonical layout unless lay given).
func PrintDecl(d Decl, lay Layout) string {
	if lay == nil {
		lay = Canonical{}
	}
	pr := &printer{lay: lay}
	pr.decl(d)
	return strings.Join(pr.lines, "\n") + "\n"
}

func (pr *printer) blank() { pr.lines = append(pr.lines, "") }

// emit writes one source line at indentation ind.
func (pr *printer) emit(ind, text, site string) {
	for _, f := range pr.lay.Filler(site, ind) {
		pr.lines = append(pr.lines, f)
	}
	pr.lines = append(pr.lines, ind+text+pr.lay.Trailer(site))
}

func (pr *printer) decl(d Decl) {
	switch d := d.(type) {
	case *RecordDef:
		pr.recordDef("type", d)
	case *UnionDef:
		pr.unionDef("type", d)
	case *RecGroup:
		for i, x := range d.Defs {
			kw := "type"
			if i > 0 {
				kw = "and"
			}
			switch x := x.(type) {
			case *RecordDef:
				pr.recordDef(kw, x)
			case *UnionDef:
				pr.unionDef(kw, x)
			}
		}
	case *RawDecl:
		for _, l := range strings.Split(strings.TrimRight(d.Text, "\n"), "\n") {
			pr.lines = append(pr.lines, l)
		}
	case *FuncDef:
		pr.funcDef(d)
	case *VarDef:
		pr.exprLines(d.E, "", "let "+d.Name+" = ", "topvar")
	case *PkgInfo:
		pr.emit("", "package_info "+d.Pkg+" =", "pkginfo")
		in := pr.lay.Indent("pkginfo")
		for _, t := range d.Types {
			pr.emit(in, "type "+t, "pkginfo-type")
		}
		for _, f := range d.Funcs {
			ta := ""
			if len(f.TArgs) > 0 {
				ta = "<" + strings.Join(f.TArgs, ", ") + ">"
			}
			pr.emit(in, "let "+f.Name+ta+": "+f.T.String(), "pkginfo-func")
		}
	default:
		panic(fmt.Sprintf("print: unknown decl %T", d))
	}
}

func (pr *printer) recordDef(kw string, d *RecordDef) {
	var fs []string
	for _, f := range d.Fields {
		fs = append(fs, f.Name+": "+f.T.String())
	}
	if pr.lay.Choice("recdef-multiline", 2) == 1 && len(fs) > 1 {
		pr.emit("", kw+" "+d.Name+" = {", "recdef")
		in := pr.lay.Indent("recdef")
		for _, f := range fs {
			pr.emit(in, f+";", "recdef-field")
		}
		pr.emit("", "}", "recdef-close")
		return
	}
	pr.emit("", kw+" "+d.Name+" = {"+strings.Join(fs, "; ")+"}", "recdef")
}

func (pr *printer) unionDef(kw string, d *UnionDef) {
	pr.emit("", kw+" "+d.Name+" =", "uniondef")
	in := ""
	if pr.lay.Choice("uniondef-indent", 2) == 1 {
		in = " "
	}
	for _, c := range d.Cases {
		if c.Payload != nil {
			pr.emit(in, "| "+c.Name+" of "+c.Payload.String(), "unioncase")
		} else {
			pr.emit(in, "| "+c.Name, "unioncase")
		}
	}
}

func paramStr(p Param) string {
	if p.NoAnnot {
		return p.Name
	}
	return "(" + p.Name + ":" + p.T.String() + ")"
}

func paramsStr(ps []Param) string {
	if len(ps) == 0 {
		return "()"
	}
	var out []string
	for _, p := range ps {
		out = append(out, paramStr(p))
	}
	return strings.Join(out, " ")
}

func (pr *printer) funcDef(f *FuncDef) {
	head := "let " + f.Name + " " + paramsStr(f.Params)
	if f.AnnotRet {
		head += " : " + f.Ret.String()
	}
	head += " ="
	pr.emit("", head, "funcdef")
	pr.block(f.Body, pr.lay.Indent("funcbody"))
}

// block prints the statements and result of b, one per line, at indentation ind.
func (pr *printer) block(b *Block, ind string) {
	for _, s := range b.Stmts {
		pr.stmt(s, ind)
	}
	pr.exprLines(b.Result, ind, "", "result")
}

func (pr *printer) stmt(s Stmt, ind string) {
	switch s := s.(type) {
	case *Let:
		pr.exprLines(s.E, ind, "let "+s.Name+" = ", "let")
	case *LetDestr:
		pr.exprLines(s.E, ind, "let ("+strings.Join(s.Names, ", ")+") = ", "letdestr")
	case *ExprStmt:
		pr.exprLines(s.E, ind, "", "exprstmt")
	case *InnerFun:
		pr.emit(ind, "let "+s.Name+" "+paramsStr(s.Params)+" =", "innerfun")
		pr.block(s.Body, ind+pr.lay.Indent("innerfun"))
	default:
		panic(fmt.Sprintf("print: unknown stmt %T", s))
	}
}

func isMultiline(e Expr) bool {
	switch e := e.(type) {
	case *MatchU, *MatchS:
		return true
	case *If:
		return !ifInlineable(e)
	}
	return false
}

func ifInlineable(e *If) bool {
	if e.Else == nil || len(e.Elifs) > 0 {
		return false
	}
	return len(e.Then.Stmts) == 0 && len(e.Else.Stmts) == 0 && inlineOK(e.Then.Result) && inlineOK(e.Else.Result) && inlineOK(e.Cond)
}

// inlineOK: e can be written on one line (a nested one-line if is parenthesised).
func inlineOK(e Expr) bool {
	switch x := e.(type) {
	case *MatchU, *MatchS:
		return false
	case *If:
		return ifInlineable(x)
	}
	return true
}

func ifPart(pr *printer, e Expr) string {
	if _, ok := e.(*If); ok {
		return "(" + pr.inline(e, 0) + ")"
	}
	return pr.inline(e, 0)
}

// exprLines prints expression e at indentation ind, preceded on its first line by
// prefix (e.g. "let x = ").
func (pr *printer) exprLines(e Expr, ind, prefix, site string) {
	switch x := e.(type) {
	case *MatchU:
		tind := ind
		if prefix != "" {
			pr.emit(ind, strings.TrimRight(prefix, " "), site)
			tind = ind + pr.lay.Indent("let-rhs")
		}
		pr.emit(tind, "match "+pr.inline(x.Target, 0)+" with", "match")
		aind := tind
		if pr.lay.Choice("arm-indent", 2) == 1 {
			aind = tind + " "
		}
		for _, a := range x.Arms {
			c := x.Union.Cases[a.Case]
			head := "| " + c.Name
			if a.Bind != "" {
				head += " " + a.Bind
			}
			pr.arm(head+" ->", a.Body, aind)
		}
		if x.Default != nil {
			pr.arm("| _ ->", x.Default, aind)
		}
		return
	case *MatchS:
		tind := ind
		if prefix != "" {
			pr.emit(ind, strings.TrimRight(prefix, " "), site)
			tind = ind + pr.lay.Indent("let-rhs")
		}
		pr.emit(tind, "match "+pr.inline(x.Target, 0)+" with", "match")
		aind := tind
		if pr.lay.Choice("arm-indent", 2) == 1 {
			aind = tind + " "
		}
		for _, a := range x.Arms {
			pr.arm("| "+strLit(a.Lit)+" ->", a.Body, aind)
		}
		if x.VarName != "" {
			pr.arm("| "+x.VarName+" ->", x.Default, aind)
		} else {
			pr.arm("| _ ->", x.Default, aind)
		}
		return
	case *If:
		if ifInlineable(x) && pr.lay.Choice("if-oneline", 2) == 0 {
			break // inline below
		}
		if x.Else == nil && len(x.Elifs) == 0 && len(x.Then.Stmts) == 0 && prefix == "" && inlineOK(x.Then.Result) && inlineOK(x.Cond) {
			// an else-less if whose body is one expression may stand on one line (`if c then f x`);
			// the canonical layout does so for a third of them (chosen by the condition's text)
			c := pr.inline(x.Cond, 0)
			_, canon := pr.lay.(Canonical)
			if _, isIf := x.Then.Result.(*If); !isIf && (x.OneLine || (canon && len(c)%3 == 0) || (!canon && pr.lay.Choice("ifonly-oneline", 2) == 1)) {
				pr.emit(ind, "if "+c+" then "+pr.inline(x.Then.Result, 0), "if")
				return
			}
		}
		tind := ind
		if prefix != "" {
			pr.emit(ind, strings.TrimRight(prefix, " "), site)
			tind = ind + pr.lay.Indent("let-rhs")
		}
		pr.emit(tind, "if "+pr.inline(x.Cond, 0)+" then", "if")
		pr.block(x.Then, tind+pr.lay.Indent("if-body"))
		for _, el := range x.Elifs {
			pr.emit(tind, "elif "+pr.inline(el.Cond, 0)+" then", "elif")
			pr.block(el.Body, tind+pr.lay.Indent("if-body"))
		}
		if x.Else != nil {
			pr.emit(tind, "else", "else")
			pr.block(x.Else, tind+pr.lay.Indent("if-body"))
		}
		return
	case *Pipe:
		// a |> f |> g : optionally break before every |>
		if pr.lay.Choice("pipe-break", 2) == 1 {
			stages := flattenPipe(x)
			if prefix != "" && pr.lay.Choice("let-rhs-nextline", 2) == 1 {
				pr.emit(ind, strings.TrimRight(prefix, " "), site)
				ind = ind + pr.lay.Indent("let-rhs")
				prefix = ""
			}
			pr.emit(ind, prefix+pr.inline(stages[0], 4), site)
			cind := ind + strings.Repeat(" ", len(prefix))
			for _, st := range stages[1:] {
				pr.emit(cind, "|> "+pr.inline(st, 2), "pipe-stage")
			}
			return
		}
	}
	// single-line expression; the right-hand side of a let may go to the next line
	if prefix != "" && pr.lay.Choice("let-rhs-nextline", 2) == 1 {
		pr.emit(ind, strings.TrimRight(prefix, " "), site)
		pr.emit(ind+pr.lay.Indent("let-rhs"), pr.inline(e, 0), "let-rhs")
		return
	}
	pr.emit(ind, prefix+pr.inline(e, 0), site)
}

// binRank: the published operator table (|> is handled apart)
func binRank(op string) int {
	switch op {
	case "&&", "||", "<", ">", "<=", ">=":
		return 2
	case "=", "<>":
		return 3
	case "+", "-":
		return 4
	case "*", "/":
		return 5
	}
	return 0
}

func flattenPipe(p *Pipe) []Expr {
	var out []Expr
	var rec func(e Expr)
	rec = func(e Expr) {
		if q, ok := e.(*Pipe); ok {
			rec(q.L)
			out = append(out, q.R)
			return
		}
		out = append(out, e)
	}
	rec(p)
	return out
}

// arm prints a match arm: head then body on the same line (if the body is a single
// inline expression and the layout says so) or on the following lines.
func (pr *printer) arm(head string, body *Block, ind string) {
	if len(body.Stmts) == 0 && !isMultiline(body.Result) && pr.lay.Choice("arm-body-nextline", 2) == 0 {
		if _, isPipe := body.Result.(*Pipe); !isPipe || true {
			pr.emit(ind, head+" "+pr.inline(body.Result, 0), "arm")
			return
		}
	}
	pr.emit(ind, head, "arm")
	pr.block(body, ind+pr.lay.Indent("arm-body"))
}

func strLit(s string) string {
	var b strings.Builder
	b.WriteByte('"')
	for i := 0; i < len(s); i++ {
		switch c := s[i]; c {
		case '"':
			b.WriteString("\\\"")
		case '\\':
			b.WriteString("\\\\")
		case '\n':
			b.WriteString("\\n")
		case '\t':
			b.WriteString("\\t")
		default:
			b.WriteByte(c)
		}
	}
	b.WriteByte('"')
	return b.String()
}

// rank of binary operators (only used to decide where parentheses are needed;
// the printer parenthesises every nested operator expression).
func isAtom(e Expr) bool {
	switch x := e.(type) {
	case *IntLit:
		return x.V >= 0
	case *StrLit, *RawLit, *BoolLit, *UnitLit, *Var, *SliceLit, *RecLit, *TupleLit, *SInterp, *UnderscoreField:
		return true
	case *FieldAcc:
		return isAtom(x.E)
	case *Ctor:
		return x.Arg == nil && !x.Union.Generic
	case *Call:
		return false
	}
	return false
}

// inline renders e on one line. ctx: 0 = top (no parentheses needed),
// 1 = operand of a binary operator / pipe source, 2 = pipe stage (application allowed bare),
// 3 = argument of an application (must be an atom or parenthesised).
func (pr *printer) inline(e Expr, ctx int) string {
	s, kind := pr.inl(e)
	// kind: 0 atom, 1 application, 2 binary-operator / not, 3 pipe, 4 lambda / if / other low-precedence form
	need := false
	switch ctx {
	case 0:
		need = false
	case 1:
		need = kind >= 2
	case 2:
		need = kind >= 2
	case 3:
		need = kind >= 1
	case 4: // source of a pipe: a nested pipe needs no parentheses (left associative), and |> is
		// the loosest operator, so a binary-operator source needs none either: half of them (chosen
		// by the text, so every layout of one program agrees) are written bare
		need = kind == 4 || (kind == 2 && len(s)%2 == 0)
	}
	if need {
		return "(" + s + ")"
	}
	return s
}

func (pr *printer) inl(e Expr) (string, int) {
	switch x := e.(type) {
	case *IntLit:
		if x.V < 0 {
			return fmt.Sprintf("0 - %d", -x.V), 2
		}
		if x.Pad > 0 {
			return fmt.Sprintf("%0*d", x.Pad, x.V), 0
		}
		return fmt.Sprint(x.V), 0
	case *StrLit:
		return strLit(x.V), 0
	case *RawLit:
		return "`" + x.V + "`", 0
	case *BoolLit:
		if x.V {
			return "true", 0
		}
		return "false", 0
	case *UnitLit:
		return "()", 0
	case *Var:
		return x.Name, 0
	case *BinOp:
		// operands that are themselves operator applications are parenthesised, except that half of
		// those the fixed table groups the same way without parentheses (left operand of equal or
		// tighter rank, right operand of strictly tighter rank) are written bare - chosen by the
		// text, so every layout of one program agrees
		l, r := pr.inline(x.L, 1), pr.inline(x.R, 1)
		if lb, ok := x.L.(*BinOp); ok && binRank(lb.Op) >= binRank(x.Op) {
			if bare, _ := pr.inl(x.L); len(bare)%2 == 1 {
				l = bare
			}
		}
		if rb, ok := x.R.(*BinOp); ok && binRank(rb.Op) > binRank(x.Op) {
			if bare, _ := pr.inl(x.R); len(bare)%2 == 1 {
				r = bare
			}
		}
		// `not` takes a TERM in both transpilers (fc parseTerm, tinyfo "'not' TERM"), so a negation
		// needs no parentheses as an operand either; half of them are written bare (chosen by the text)
		if _, ok := x.L.(*Not); ok {
			if bare, _ := pr.inl(x.L); len(bare)%2 == 1 {
				l = bare
			}
		}
		if _, ok := x.R.(*Not); ok {
			if bare, _ := pr.inl(x.R); len(bare)%2 == 0 {
				r = bare
			}
		}
		return l + " " + x.Op + " " + r, 2
	case *Not:
		return "not " + pr.inline(x.E, 3), 2
	case *If:
		if !ifInlineable(x) {
			panic("print: multi-line if in inline position")
		}
		return "if " + ifPart(pr, x.Cond) + " then " + ifPart(pr, x.Then.Result) + " else " + ifPart(pr, x.Else.Result), 4
	case *RecLit:
		var fs []string
		order := x.Order
		if order == nil {
			for i := range x.Rec.Fields {
				order = append(order, i)
			}
		}
		for k, i := range order {
			nm := x.Rec.Fields[i].Name
			if k == 0 && x.Prefix && !x.Rec.Generic {
				nm = x.Rec.Name + "." + nm
			}
			fs = append(fs, nm+"="+pr.inline(x.Fields[i], 0))
		}
		return "{" + strings.Join(fs, "; ") + "}", 0
	case *FieldAcc:
		return pr.inline(x.E, 3) + "." + x.Name, 0
	case *TupleLit:
		var es []string
		for _, el := range x.Elems {
			es = append(es, pr.inline(el, 0))
		}
		return "(" + strings.Join(es, ", ") + ")", 0
	case *SliceLit:
		var es []string
		for _, el := range x.Elems {
			es = append(es, pr.inline(el, 0))
		}
		if pr.tiny {
			return "[" + strings.Join(es, "; ") + "]", 1 // tinyfo parses a slice literal as a term, not as an atom
		}
		return "[" + strings.Join(es, "; ") + "]", 0
	case *Lambda:
		var ps []string
		for _, p := range x.Params {
			ps = append(ps, paramStr(p))
		}
		if len(x.Body.Stmts) != 0 || isMultiline(x.Body.Result) {
			panic("print: lambda with a block body")
		}
		return "fun " + strings.Join(ps, " ") + " -> " + pr.inline(x.Body.Result, 0), 4
	case *Call:
		fn := pr.inline(x.Fn, 3)
		if len(x.TArgs) > 0 {
			var ts []string
			for _, t := range x.TArgs {
				ts = append(ts, t.String())
			}
			fn += "<" + strings.Join(ts, ", ") + ">"
		}
		parts := []string{fn}
		for _, a := range x.Args {
			parts = append(parts, pr.inline(a, 3))
		}
		if len(x.Args) == 0 {
			return fn, 0
		}
		return strings.Join(parts, " "), 1
	case *Ctor:
		c := x.Union.Cases[x.Case]
		if x.Arg == nil && x.Union.Generic {
			// a payload-less case of a generic union is a function taking explicit type arguments
			return c.Name + "<" + x.Union.TArg.String() + "> ()", 1
		}
		if x.Arg == nil {
			return c.Name, 0
		}
		return c.Name + " " + pr.inline(x.Arg, 3), 1
	case *Pipe:
		return pr.inline(x.L, 4) + " |> " + pr.inline(x.R, 2), 3
	case *SInterp:
		var b strings.Builder
		if x.Raw {
			b.WriteString("$`")
		} else {
			b.WriteString("$\"")
		}
		for _, p := range x.Parts {
			if p.Hole != "" {
				b.WriteString("{" + p.Hole + "}")
			} else if x.Raw {
				b.WriteString(p.Text)
			} else {
				t := strLit(p.Text)
				t = t[1 : len(t)-1]
				t = strings.ReplaceAll(t, "{", "\\{")
				t = strings.ReplaceAll(t, "}", "\\}")
				b.WriteString(t)
			}
		}
		if x.Raw {
			b.WriteString("`")
		} else {
			b.WriteString("\"")
		}
		return b.String(), 0
	case *UnderscoreField:
		return "_." + x.Name, 0
	case *MatchU, *MatchS:
		panic("print: match in inline position")
	}
	panic(fmt.Sprintf("print: unknown expr %T", e))
}
