package fo

import "regexp"

// Defines lists the identifiers a declaration introduces (type, field, case,
// function and variable names).
func Defines(d Decl) []string {
	switch d := d.(type) {
	case *RecordDef:
		out := []string{d.Name}
		for _, f := range d.Fields {
			out = append(out, f.Name)
		}
		return out
	case *UnionDef:
		out := []string{d.Name}
		for _, c := range d.Cases {
			out = append(out, c.Name)
		}
		return out
	case *RecGroup:
		var out []string
		for _, x := range d.Defs {
			out = append(out, Defines(x)...)
		}
		return out
	case *FuncDef:
		return []string{d.Name}
	case *VarDef:
		return []string{d.Name}
	case *RawDecl:
		return d.Names
	case *PkgInfo:
		out := []string{d.Pkg}
		out = append(out, d.Types...)
		for _, f := range d.Funcs {
			out = append(out, f.Name)
		}
		return out
	}
	return nil
}

var identRe = regexp.MustCompile(`[A-Za-z_][A-Za-z0-9_]*`)

// Deps returns, for every declaration of p, the indices of the earlier declarations
// whose identifiers occur in its canonical text (a conservative reference relation).
func Deps(p *Program) [][]int {
	owner := map[string]int{}
	deps := make([][]int, len(p.Decls))
	for i, d := range p.Decls {
		text := PrintDecl(d, nil)
		seen := map[int]bool{}
		for _, id := range identRe.FindAllString(text, -1) {
			if j, ok := owner[id]; ok && j != i && !seen[j] {
				seen[j] = true
				deps[i] = append(deps[i], j)
			}
		}
		for _, n := range Defines(d) {
			if _, dup := owner[n]; !dup {
				owner[n] = i
			}
		}
	}
	return deps
}
