package fo

import (
	"fmt"
	"sort"
	"strings"

	"verif/internal/core"
)

// Profile selects the language features a generated program may use.
type Profile struct {
	Name           string
	MulDiv         bool
	Lambdas        bool
	StrMatch       bool
	Interp         bool
	Closures       bool // a function returning a lambda that closes over its parameter and a local
	DiscardMatch   bool // a non-unit match used as a statement
	RecursiveTypes bool // a union that refers to itself (directly, through a pair, through a slice)
	PaddedInts     bool // some integer literals are written with leading zeros
	GoKeywordNames bool // some parameters / locals are named like Go keywords (range, map, default, ...)
	RawStr         bool
	Tuple3         bool
	InnerFun       bool
	IfOnly         bool
	UnionNoDef     bool // union match without default (exhaustive)
	FieldPerm      bool // record literal fields in another order / Rec. prefix
	Partial        bool
	Pipes          bool
	HigherOrder    bool // user functions with function-typed parameters
	CompositeEq    bool // = / <> on records, tuples, slices, unions
	UsField        bool // _.Field
	SliceLib       bool
	StringsLib     bool
	TopVars        bool
	Shadow         bool
	LowerFields    bool // records with lower-case field names
	Recursion      bool
	StrCompare     bool
	GenericFns     bool    // unannotated generic helper functions
	LetRhsInline   bool    // the right-hand side of a let is always a one-line expression
	ShadowProb     float64 // probability that a new binding shadows a visible outer name (0 = 0.08)
	UnitIfElse     bool    // unit-typed if / elif / else statements
	PipeStmt       bool    // `e |> frt.Println` statements
	MoreSlice      bool    // Mapi, Collect, Concat, TryFind, SortBy, Take
	BareLambda     bool    // lambda parameters without annotation where the body determines them
	GenericTypes   bool    // a generic union GOpt<T> and a generic record GBox<T>
	RecGroups      bool    // type A = {.. B ..} and B = ... groups with a forward reference
	Stateful       bool    // buf / dict groups: New, several writes, reads
	TopVarsMin     int     // at least this many top-level variables (with TopVars)
	NoIf           bool    // no if expressions (C02: not in the list of constructs with promised inference)
	NoMatch        bool
	NoFieldAcc     bool
	FuncParamApply bool // function-typed parameters of pure functions, applied once in the body
	MinFuncs       int
	MaxFuncs       int
	MaxDepth       int
}

var ProfileC01 = Profile{Name: "c01", PaddedInts: true, Closures: true, DiscardMatch: true, RecursiveTypes: true, GoKeywordNames: true, MulDiv: true, Lambdas: true, StrMatch: true, Interp: true, RawStr: true, Tuple3: true, InnerFun: true, IfOnly: true,
	UnionNoDef: true, FieldPerm: true, Partial: true, Pipes: true, HigherOrder: true, CompositeEq: true, UsField: true, SliceLib: true, StringsLib: true,
	TopVars: true, Shadow: true, LowerFields: true, Recursion: true, StrCompare: true, GenericFns: true, RecGroups: true, Stateful: true, UnitIfElse: true, PipeStmt: true, MoreSlice: true, BareLambda: true, GenericTypes: true, MinFuncs: 3, MaxFuncs: 7, MaxDepth: 4}

var ProfileTiny = Profile{Name: "tinyfo", PaddedInts: true, GoKeywordNames: true, ShadowProb: 0.3, Partial: true, Pipes: true, SliceLib: true, StringsLib: true, HigherOrder: true, CompositeEq: true, Shadow: true, FieldPerm: true, LetRhsInline: true, IfOnly: true, UnionNoDef: true, MinFuncs: 2, MaxFuncs: 5, MaxDepth: 3}

type vinfo struct {
	name string
	t    *Type
	used *bool
}

type scope struct {
	vars    []vinfo
	parent  *scope
	goNames map[string]bool // names declared in the current Go block (no re-declaration allowed)
}

func (s *scope) child(newGoBlock bool) *scope {
	c := &scope{parent: s}
	if newGoBlock {
		c.goNames = map[string]bool{}
	} else {
		c.goNames = s.goNames
	}
	return c
}

func (s *scope) add(name string, t *Type) *bool {
	u := new(bool)
	s.vars = append(s.vars, vinfo{name, t, u})
	s.goNames[name] = true
	return u
}

// visible returns the variables of type t that are not shadowed.
func (s *scope) visible(t *Type) []vinfo {
	seen := map[string]bool{}
	var out []vinfo
	for x := s; x != nil; x = x.parent {
		for i := len(x.vars) - 1; i >= 0; i-- {
			v := x.vars[i]
			if seen[v.name] {
				continue
			}
			seen[v.name] = true
			if t == nil || v.t.Eq(t) {
				out = append(out, v)
			}
		}
	}
	return out
}

type Gen struct {
	R             *core.Rand
	P             Profile
	prog          *Program
	recs          []*RecordDef
	unions        []*UnionDef
	funcs         []*FuncDef // callable user functions generated so far
	gvars         []*VarDef
	shows         map[string]string // type string -> observer function name
	tagN          int
	nameN         int
	Features      map[string]int
	curFunc       *FuncDef
	univ          []*Type
	hasGid        bool
	hasGsnd       bool
	inTopBlock    bool // generating the outermost block of a top-level function
	applied       map[string]bool
	hiddenGlobals map[string]bool // global variables shadowed by the binder of the arm being generated
	usedKw        map[string]bool
}

func (g *Gen) feat(f string) { g.Features[f]++ }

// goKeywordNames: Go keywords that are ordinary identifiers in Folang.
var goKeywordNames = []string{"break", "case", "chan", "const", "continue", "default", "defer", "fallthrough", "for", "func", "go", "goto", "interface", "map", "range", "return", "select", "struct", "switch", "var"}

func (g *Gen) fresh(prefix string) string {
	g.nameN++
	if g.P.GoKeywordNames && len(prefix) <= 3 && prefix != "fn" && prefix != "gv" && prefix != "rec" && prefix != "r" && g.R.Chance(0.05) {
		// a parameter / local / binder named like a Go keyword (each at most once per program)
		for try := 0; try < 3; try++ {
			kw := core.Pick(g.R, goKeywordNames)
			if !g.usedKw[kw] {
				if g.usedKw == nil {
					g.usedKw = map[string]bool{}
				}
				g.usedKw[kw] = true
				g.feat("go-keyword-identifier")
				return kw
			}
		}
	}
	return fmt.Sprintf("%s%d", prefix, g.nameN)
}

func (g *Gen) tag() string {
	g.tagN++
	return fmt.Sprintf("t%d", g.tagN)
}

var wordPool = []string{"a", "b", "abc", "x y", "hello", "Fo", "z9", "", "lang", "q", "ab", "k-1", "m.n", "u_v", "l1\nl2", "q\"t", "b\\s", "t\tx", "100%", "{b}"}

func (g *Gen) strLitVal() string { return core.Pick(g.R, wordPool) }

// ---------------------------------------------------------------------------------

// Generate builds one program for the given profile. pkg is the package name; the
// entry point is `Run ()`.
func Generate(r *core.Rand, p Profile, pkg string) (*Program, map[string]int) {
	g := &Gen{R: r, P: p, shows: map[string]string{}, Features: map[string]int{}, applied: map[string]bool{}}
	// the observers use slice.Map and strings.Concat, so all three packages are always imported
	g.prog = &Program{Pkg: pkg, Imports: []string{"frt", "slice", "strings"}, Tiny: p.Name == "tinyfo"}
	g.genTypes()
	g.genPrelude()
	g.genObservers()
	nPure := 1 + r.Intn(3)
	for i := 0; i < nPure; i++ {
		g.genFunc(true)
	}
	if p.GenericFns {
		g.genGenericHelpers()
	}
	if p.TopVars {
		for i, n := 0, p.TopVarsMin+r.Intn(4); i < n; i++ {
			g.genTopVar()
		}
	}
	n := p.MinFuncs + r.Intn(p.MaxFuncs-p.MinFuncs+1)
	for i := 0; i < n; i++ {
		g.genFunc(false)
	}
	if p.Recursion && r.Chance(0.6) {
		g.genRecursive()
		if r.Chance(0.3) {
			g.genRecursive()
		}
	}
	if p.Closures && p.Lambdas && r.Chance(0.5) {
		g.genClosureMaker()
	}
	g.genRun()
	return g.prog, g.Features
}

func (g *Gen) add(d Decl) { g.prog.Decls = append(g.prog.Decls, d) }

func (g *Gen) needImport(pkg string) {
	for _, im := range g.prog.Imports {
		if im == pkg {
			return
		}
	}
	g.prog.Imports = append(g.prog.Imports, pkg)
}

func (g *Gen) genTypes() {
	nr := 1 + g.R.Intn(3)
	for i := 0; i < nr; i++ {
		rd := &RecordDef{Name: fmt.Sprintf("R%d", i+1)}
		nf := 1 + g.R.Intn(4)
		lower := g.P.LowerFields && g.R.Chance(0.25)
		for j := 0; j < nf; j++ {
			var ft *Type
			switch g.R.Intn(8) {
			case 0, 1, 2:
				ft = TInt
			case 3, 4:
				ft = TString
			case 5:
				ft = TBool
			case 6:
				if len(g.recs) > 0 {
					ft = TRec(core.Pick(g.R, g.recs).Name)
				} else {
					ft = TSlice(TInt)
				}
			default:
				ft = core.Pick(g.R, []*Type{TSlice(TInt), TSlice(TString), TTuple(TInt, TString)})
			}
			name := fmt.Sprintf("F%d%c", i+1, 'a'+j)
			if lower {
				name = fmt.Sprintf("f%d%c", i+1, 'a'+j)
			}
			rd.Fields = append(rd.Fields, Field{name, ft})
		}
		g.recs = append(g.recs, rd)
		g.add(rd)
	}
	if g.P.RecGroups && g.R.Chance(0.5) {
		// a group whose first record refers forward to the second (and, sometimes, a union
		// of the group refers back to the first)
		a := &RecordDef{Name: "Ga", Fields: []Field{{"GaName", TString}, {"GaBoss", TRec("Gb")}}}
		b := &RecordDef{Name: "Gb", Fields: []Field{{"GbAge", TInt}, {"GbTag", TString}}}
		if g.R.Chance(0.4) {
			a.Fields = append(a.Fields, Field{"GaNums", TSlice(TInt)})
		}
		grp := &RecGroup{Defs: []Decl{a, b}}
		g.recs = append(g.recs, b, a)
		g.add(grp)
		g.feat("type-and-group")
	}
	nu := 1 + g.R.Intn(2)
	for i := 0; i < nu; i++ {
		ud := &UnionDef{Name: fmt.Sprintf("U%d", i+1)}
		nc := 1 + g.R.Intn(4)
		for j := 0; j < nc; j++ {
			c := UCase{Name: fmt.Sprintf("K%d%c", i+1, 'a'+j)}
			switch g.R.Intn(7) {
			case 0, 1:
				c.Payload = TInt
			case 2:
				c.Payload = TString
			case 3:
				c.Payload = TRec(core.Pick(g.R, g.recs).Name)
			case 4:
				c.Payload = core.Pick(g.R, []*Type{TTuple(TInt, TString), TSlice(TInt), TBool})
			}
			ud.Cases = append(ud.Cases, c)
		}
		if i == 0 && g.P.CompositeEq && g.P.Name == "c01" {
			// the first union always has a case whose payload is a slice (a value Go's == cannot
			// compare): it is the type of Rw's field below
			has := false
			for _, c := range ud.Cases {
				if c.Payload != nil && c.Payload.K == KSlice {
					has = true
				}
			}
			if !has {
				ud.Cases[g.R.Intn(len(ud.Cases))].Payload = TSlice(TInt)
			}
		}
		g.unions = append(g.unions, ud)
		g.add(ud)
	}
	if g.P.RecursiveTypes && g.R.Chance(0.5) {
		// a union that refers to itself: directly, through a pair, through a slice
		ud := &UnionDef{Name: "Tr", Cases: []UCase{{Name: "TrLeaf", Payload: TInt}}}
		shapes := []UCase{{Name: "TrNode", Payload: TTuple(TUnion("Tr"), TUnion("Tr"))}, {Name: "TrMany", Payload: TSlice(TUnion("Tr"))},
			{Name: "TrTag", Payload: TTuple(TString, TUnion("Tr"))}, {Name: "TrWrap", Payload: TUnion("Tr")}}
		core.Shuffle(g.R, shapes)
		ud.Cases = append(ud.Cases, shapes[:1+g.R.Intn(3)]...)
		if g.R.Bool() {
			ud.Cases = append(ud.Cases, UCase{Name: "TrNil"})
		}
		core.Shuffle(g.R, ud.Cases)
		g.unions = append(g.unions, ud)
		g.add(ud)
		g.feat("recursive-union")
	}
	if g.P.GenericTypes && g.R.Chance(0.5) {
		// a generic union and a generic record, each used at two instantiations
		g.add(&RawDecl{Names: []string{"GOpt", "GSome", "GNone"}, Text: "type GOpt<T> =\n| GSome of T\n| GNone"})
		g.add(&RawDecl{Names: []string{"GBox", "GItem", "GCnt"}, Text: "type GBox<T> = {GItem: T; GCnt: int}"})
		for _, ta := range []*Type{TInt, TString} {
			g.unions = append(g.unions, &UnionDef{Name: "GOpt<" + ta.String() + ">", Generic: true, TArg: ta, Cases: []UCase{{"GSome", ta}, {"GNone", nil}}})
			g.recs = append(g.recs, &RecordDef{Name: "GBox<" + ta.String() + ">", Generic: true, Fields: []Field{{"GItem", ta}, {"GCnt", TInt}}})
		}
		g.feat("generic-union-and-record")
	}
	if g.P.CompositeEq && g.P.Name == "c01" {
		// a record with a union-typed field (defined after the unions): equality on it
		// compares union values nested in a struct
		rw := &RecordDef{Name: "Rw", Fields: []Field{{"RwTag", TInt}, {"RwU", TUnion(g.unions[0].Name)}}}
		g.recs = append(g.recs, rw)
		g.add(rw)
	}
	// the universe of value types expressions may have
	g.univ = []*Type{TInt, TString, TBool, TSlice(TInt), TSlice(TString), TTuple(TInt, TString)}
	if g.P.Tuple3 {
		g.univ = append(g.univ, TTuple(TInt, TBool, TString))
	}
	for _, r := range g.recs {
		g.univ = append(g.univ, TRec(r.Name))
	}
	for _, u := range g.unions {
		g.univ = append(g.univ, TUnion(u.Name))
	}
	g.univ = append(g.univ, TSlice(TRec(g.recs[0].Name)))
	g.univ = append(g.univ, TSlice(TTuple(TInt, TString)))
	// field / payload types not yet in the universe
	addT := func(t *Type) {
		for _, u := range g.univ {
			if u.Eq(t) {
				return
			}
		}
		g.univ = append(g.univ, t)
	}
	for _, r := range g.recs {
		for _, f := range r.Fields {
			addT(f.T)
		}
	}
	for _, u := range g.unions {
		for _, c := range u.Cases {
			if c.Payload != nil {
				addT(c.Payload)
			}
		}
	}
}

func (g *Gen) rec(name string) *RecordDef {
	for _, r := range g.recs {
		if r.Name == name {
			return r
		}
	}
	panic("no record " + name)
}

func (g *Gen) union(name string) *UnionDef {
	for _, u := range g.unions {
		if u.Name == name {
			return u
		}
	}
	panic("no union " + name)
}

func v(name string) *Var { return &Var{Name: name} }

// mentionsUnion: does type t contain the union called name?
func mentionsUnion(t *Type, name string) bool {
	if t == nil {
		return false
	}
	if t.K == KUnion && t.Name == name {
		return true
	}
	for _, a := range t.Args {
		if mentionsUnion(a, name) {
			return true
		}
	}
	return false
}

func call(fn string, args ...Expr) *Call { return &Call{Fn: v(fn), Args: args} }

func (g *Gen) genPrelude() {
	mk := func(name string, t *Type) {
		body := &Block{Stmts: []Stmt{&ExprStmt{call("frt.Printf1", &StrLit{"E %s\n"}, v("tag"))}}, Result: v("v")}
		g.add(&FuncDef{Name: name, Params: []Param{{Name: "tag", T: TString}, {Name: "v", T: t}}, Ret: t, Body: body})
	}
	mk("evI", TInt)
	mk("evS", TString)
	mk("evB", TBool)
	g.add(&FuncDef{Name: "trace", Params: []Param{{Name: "tag", T: TString}}, Ret: TUnit, Body: ExprBlock(call("frt.Printf1", &StrLit{"E %s\n"}, v("tag")))})
}

func showName(t *Type) string {
	s := t.String()
	r := strings.NewReplacer("[]", "L", "*", "x", "(", "", ")", "", "->", "to", "<", "_", ">", "_", ",", "_", " ", "")
	return "show_" + r.Replace(s)
}

func cat(parts ...Expr) Expr {
	e := parts[0]
	for _, p := range parts[1:] {
		e = &BinOp{Op: "+", L: e, R: p}
	}
	return e
}

// genObservers defines, in Folang itself, one observer per type of the universe.
func (g *Gen) genObservers() {
	done := map[string]bool{}
	var need func(t *Type)
	need = func(t *Type) {
		key := t.String()
		if done[key] {
			return
		}
		done[key] = true
		name := showName(t)
		g.shows[key] = name
		par := []Param{{Name: "v", T: t}}
		switch t.K {
		case KInt:
			g.add(&FuncDef{Name: name, Params: par, Ret: TString, Pure: true, Body: ExprBlock(call("frt.Sprintf1", &StrLit{"%d"}, v("v")))})
		case KString:
			g.add(&FuncDef{Name: name, Params: par, Ret: TString, Pure: true, Body: ExprBlock(cat(&StrLit{"'"}, v("v"), &StrLit{"'"}))})
		case KBool:
			g.add(&FuncDef{Name: name, Params: par, Ret: TString, Pure: true, Body: ExprBlock(&If{Cond: v("v"), Then: ExprBlock(&StrLit{"T"}), Else: ExprBlock(&StrLit{"F"})})})
		case KSlice:
			need(t.Elem())
			body := &Block{Stmts: []Stmt{&Let{"parts", call("slice.Map", v(g.shows[t.Elem().String()]), v("v"))}},
				Result: cat(&StrLit{"["}, call("strings.Concat", &StrLit{";"}, v("parts")), &StrLit{"]"})}
			g.add(&FuncDef{Name: name, Params: par, Ret: TString, Pure: true, Body: body})
		case KTuple:
			var names []string
			parts := []Expr{&StrLit{"("}}
			for i, a := range t.Args {
				need(a)
				n := fmt.Sprintf("e%d", i)
				names = append(names, n)
				if i > 0 {
					parts = append(parts, &StrLit{","})
				}
				parts = append(parts, call(g.shows[a.String()], v(n)))
			}
			parts = append(parts, &StrLit{")"})
			g.add(&FuncDef{Name: name, Params: par, Ret: TString, Pure: true, Body: &Block{Stmts: []Stmt{&LetDestr{names, v("v")}}, Result: cat(parts...)}})
		case KRec:
			rd := g.rec(t.Name)
			parts := []Expr{&StrLit{rd.Name + "{"}}
			for i, f := range rd.Fields {
				need(f.T)
				if i > 0 {
					parts = append(parts, &StrLit{","})
				}
				parts = append(parts, call(g.shows[f.T.String()], &FieldAcc{v("v"), f.Name}))
			}
			parts = append(parts, &StrLit{"}"})
			g.add(&FuncDef{Name: name, Params: par, Ret: TString, Pure: true, Body: ExprBlock(cat(parts...))})
		case KUnion:
			ud := g.union(t.Name)
			m := &MatchU{Target: v("v"), Union: ud}
			for i, c := range ud.Cases {
				if c.Payload != nil && mentionsUnion(c.Payload, ud.Name) {
					// the observer of a self-referential union calls itself (no other definition may
					// refer to it before it is complete)
					var body *Block
					switch {
					case c.Payload.K == KUnion:
						body = ExprBlock(cat(&StrLit{c.Name + "("}, call(name, v("p")), &StrLit{")"}))
					case c.Payload.K == KSlice:
						body = ExprBlock(cat(&StrLit{c.Name + "["}, call("strings.Concat", &StrLit{";"}, call("slice.Map", v(name), v("p"))), &StrLit{"]"}))
					default: // pair
						var parts []Expr
						for k, a := range c.Payload.Args {
							if a.K == KUnion {
								parts = append(parts, call(name, v(fmt.Sprintf("q%d", k))))
							} else {
								need(a)
								parts = append(parts, call(g.shows[a.String()], v(fmt.Sprintf("q%d", k))))
							}
						}
						body = &Block{Stmts: []Stmt{&LetDestr{[]string{"q0", "q1"}, v("p")}}, Result: cat(&StrLit{c.Name + "("}, parts[0], &StrLit{","}, parts[1], &StrLit{")"})}
					}
					m.Arms = append(m.Arms, UArm{Case: i, Bind: "p", Body: body})
				} else if c.Payload != nil {
					need(c.Payload)
					m.Arms = append(m.Arms, UArm{Case: i, Bind: "p", Body: ExprBlock(cat(&StrLit{c.Name + "("}, call(g.shows[c.Payload.String()], v("p")), &StrLit{")"}))})
				} else {
					m.Arms = append(m.Arms, UArm{Case: i, Body: ExprBlock(&StrLit{c.Name})})
				}
			}
			g.add(&FuncDef{Name: name, Params: par, Ret: TString, Pure: true, Body: &Block{Result: m}})
		}
	}
	for _, t := range g.univ {
		need(t)
	}
}

// lam builds a lambda; with BareLambda some parameters of basic type lose their annotation
// (`fun x -> x + 1`, as in the documentation).
func (g *Gen) lam(params []Param, body Expr) *Lambda {
	if g.P.BareLambda {
		for i := range params {
			if k := params[i].T.K; (k == KInt || k == KString || k == KBool) && g.R.Chance(0.4) {
				params[i].NoAnnot = true
				g.feat("lambda-parameter-without-annotation")
			}
		}
	}
	return &Lambda{Params: params, Body: ExprBlock(body)}
}

func (g *Gen) show(t *Type, e Expr) Expr {
	n, ok := g.shows[t.String()]
	if !ok {
		panic("no observer for " + t.String())
	}
	return call(n, e)
}

// ---- types used for parameters / results ---------------------------------------

func (g *Gen) pickParamType() *Type {
	if g.P.Name == "c02" {
		return core.Pick(g.R, []*Type{TInt, TInt, TString, TString, TBool, TSlice(TInt), TSlice(TString), TTuple(TInt, TString)})
	}
	if g.R.Chance(0.35) {
		if g.R.Bool() {
			return TUnion(core.Pick(g.R, g.unions).Name)
		}
		return TRec(core.Pick(g.R, g.recs).Name)
	}
	return g.pickValueType()
}

func (g *Gen) pickValueType() *Type {
	switch g.R.Intn(10) {
	case 0, 1, 2:
		return TInt
	case 3, 4:
		return TString
	case 5:
		return TBool
	}
	return core.Pick(g.R, g.univ)
}

// ---- functions --------------------------------------------------------------------

func (g *Gen) genFunc(pure bool) {
	f := &FuncDef{Name: g.fresh("fn"), Pure: pure}
	np := 1 + g.R.Intn(3)
	if !pure && g.R.Chance(0.12) {
		np = 0
	}
	sc := &scope{goNames: map[string]bool{}}
	for i := 0; i < np; i++ {
		var t *Type
		if pure && g.P.FuncParamApply && g.R.Chance(0.25) {
			a := core.Pick(g.R, []*Type{TInt, TString})
			b := core.Pick(g.R, []*Type{TInt, TString, TBool})
			t = TFunc(a, b)
			g.feat("func-typed-param")
		} else if !pure && g.P.HigherOrder && g.R.Chance(0.15) {
			// function-typed parameter
			a := core.Pick(g.R, []*Type{TInt, TString})
			b := core.Pick(g.R, []*Type{TInt, TString, TBool})
			t = TFunc(a, b)
			if !g.P.Lambdas {
				// without lambdas a function value must be a named pure function or a partial
				// application of one: take the type of the last k parameters of such a function
				var cands []*Type
				for _, pf := range g.funcs {
					if pf.Pure && !pf.Rec && len(pf.Params) >= 1 {
						for k := 1; k <= len(pf.Params) && k <= 2; k++ {
							var ps []*Type
							for _, pp := range pf.Params[len(pf.Params)-k:] {
								ps = append(ps, pp.T)
							}
							cands = append(cands, TFunc(append(ps, pf.Ret)...))
						}
					}
				}
				if len(cands) == 0 {
					t = g.pickParamType()
				} else {
					t = core.Pick(g.R, cands)
				}
			}
			g.feat("func-typed-param")
		} else {
			t = g.pickParamType()
		}
		p := Param{Name: g.fresh("p"), T: t}
		f.Params = append(f.Params, p)
		sc.add(p.Name, t)
	}
	if pure {
		f.Ret = core.Pick(g.R, []*Type{TInt, TString, TBool, TInt})
		if g.R.Chance(0.3) {
			f.Ret = g.pickValueType()
		}
	} else {
		f.Ret = g.pickValueType()
		if g.R.Chance(0.1) {
			f.Ret = TUnit
		}
	}
	g.curFunc = f
	g.inTopBlock = true
	f.Body = g.block(f.Ret, sc, g.P.MaxDepth, !pure, true)
	f.AnnotRet = g.R.Chance(0.2)
	g.curFunc = nil
	g.funcs = append(g.funcs, f)
	g.add(f)
}

// genGenericHelpers adds a few classic generic functions whose parameters are not annotated.
func (g *Gen) genGenericHelpers() {
	if g.R.Chance(0.5) {
		// let idg x = x  -- applied at several types
		f := &FuncDef{Name: "gid", Params: []Param{{Name: "x", T: TVar("T0"), NoAnnot: true}}, Ret: TVar("T0"), Pure: true, Body: ExprBlock(v("x"))}
		g.add(f)
		g.Features["generic-id"]++
		g.hasGid = true
	}
	if g.R.Chance(0.5) {
		// let gsecond a b = b
		f := &FuncDef{Name: "gsnd", Params: []Param{{Name: "a", T: TVar("T0"), NoAnnot: true}, {Name: "b", T: TVar("T1"), NoAnnot: true}}, Ret: TVar("T1"), Pure: true, Body: ExprBlock(v("b"))}
		g.add(f)
		g.hasGsnd = true
	}
}

func (g *Gen) genTopVar() {
	t := core.Pick(g.R, []*Type{TInt, TString, TBool, TSlice(TInt)})
	sc := &scope{goNames: map[string]bool{}}
	pm, pn := 0.35, 0.6
	if g.P.TopVarsMin > 0 {
		pm, pn = 0.6, 0.85 // (C07's pools: the root scope is where a leak reaches every later definition)
	}
	if g.R.Chance(pm) {
		// the right-hand side is directly a match: its arms are parsed in the root scope. The
		// binder often reuses the name of an earlier top-level variable of another type.
		ud := core.Pick(g.R, g.unions)
		var withPayload []int
		for i, c := range ud.Cases {
			if c.Payload != nil {
				withPayload = append(withPayload, i)
			}
		}
		if len(withPayload) > 0 {
			ci := core.Pick(g.R, withPayload)
			pt := ud.Cases[ci].Payload
			bind := g.fresh("b")
			if g.R.Chance(pn) {
				for _, gv := range g.gvars {
					if !gv.T.Eq(pt) {
						bind = gv.Name
						g.feat("top-level-match-binder-named-like-a-global")
						break
					}
				}
			}
			asc := sc.child(true)
			asc.add(bind, pt)
			target := &Ctor{Union: ud, Case: ci, Arg: g.expr(pt, sc, 1, false)}
			if g.R.Chance(0.3) && len(ud.Cases) > 1 {
				oc := (ci + 1) % len(ud.Cases)
				target = &Ctor{Union: ud, Case: oc}
				if ud.Cases[oc].Payload != nil {
					target.Arg = g.expr(ud.Cases[oc].Payload, sc, 1, false)
				}
			}
			g.hiddenGlobals = map[string]bool{bind: true}
			armBody := g.expr(t, asc, 1, false)
			g.hiddenGlobals = nil
			m := &MatchU{Target: target, Union: ud, Arms: []UArm{{Case: ci, Bind: bind, Body: ExprBlock(armBody)}}, Default: ExprBlock(g.expr(t, sc, 1, false))}
			if !FreeInBlock(m.Arms[0].Body, bind) {
				m.Arms[0].Bind = "_"
			}
			vd := &VarDef{Name: g.fresh("gv"), T: t, E: m}
			g.gvars = append(g.gvars, vd)
			g.add(vd)
			g.feat("top-level-var-defined-by-match")
			return
		}
	}
	vd := &VarDef{Name: g.fresh("gv"), T: t, E: g.expr(t, sc, 2, false)}
	g.gvars = append(g.gvars, vd)
	g.add(vd)
	g.feat("top-level-var")
}

func (g *Gen) genRecursive() {
	name := g.fresh("rec")
	ev := func(e Expr) Expr { return call("evI", &StrLit{g.tag()}, e) }
	self := func(args ...Expr) Expr { return call(name, args...) }
	dec := &BinOp{"-", v("n"), &IntLit{V: 1}}
	var f *FuncDef
	var tr *UnionDef
	for _, u := range g.unions {
		if u.Name == "Tr" {
			tr = u
		}
	}
	k := g.R.Intn(5)
	if tr != nil && g.R.Chance(0.6) {
		k = 5
	}
	switch k {
	case 5:
		// structural recursion over the self-referential union, one arm per case
		m := &MatchU{Target: v("t"), Union: tr}
		for i, c := range tr.Cases {
			var body *Block
			switch {
			case c.Payload == nil:
				body = ExprBlock(ev(&IntLit{V: g.R.Intn(4)}))
			case c.Payload.K == KInt:
				body = ExprBlock(ev(v("p")))
			case c.Payload.K == KUnion:
				body = ExprBlock(&BinOp{"+", &IntLit{V: 1}, self(v("p"))})
			case c.Payload.K == KSlice:
				body = ExprBlock(call("slice.Fold", &Lambda{Params: []Param{{Name: "a", T: TInt}, {Name: "b", T: TInt}}, Body: ExprBlock(&BinOp{"+", v("a"), v("b")})}, &IntLit{V: 0}, call("slice.Map", v(name), v("p"))))
			case c.Payload.Args[0].K == KUnion:
				body = &Block{Stmts: []Stmt{&LetDestr{[]string{"l", "r"}, v("p")}}, Result: &BinOp{core.Pick(g.R, []string{"+", "-"}), self(v("l")), self(v("r"))}}
			default: // string * Tr
				body = ExprBlock(&BinOp{"+", call("strings.Length", call("frt.Fst", v("p"))), self(call("frt.Snd", v("p")))})
			}
			arm := UArm{Case: i, Body: body}
			if c.Payload != nil {
				arm.Bind = "p"
			}
			m.Arms = append(m.Arms, arm)
		}
		f = &FuncDef{Name: name, Params: []Param{{Name: "t", T: TUnion("Tr")}}, Ret: TInt, AnnotRet: true, Body: &Block{Result: m}}
		g.feat("recursion-over-recursive-union")
	case 0:
		// let sumTo (n:int) : int = if n <= 0 then (evI tag 0) else n + sumTo (n - 1)
		body := &Block{Result: &If{Cond: &BinOp{"<=", v("n"), &IntLit{V: 0}},
			Then: ExprBlock(ev(&IntLit{V: g.R.Intn(5)})),
			Else: ExprBlock(&BinOp{core.Pick(g.R, []string{"+", "*", "-"}), ev(v("n")), self(dec)})}}
		f = &FuncDef{Name: name, Params: []Param{{Name: "n", T: TInt}}, Ret: TInt, AnnotRet: true, Body: body}
		g.feat("recursion")
	case 1:
		// accumulator passing (tail call): int, string or slice accumulator
		at := core.Pick(g.R, []*Type{TInt, TString, TSlice(TInt)})
		var step Expr
		switch at.K {
		case KInt:
			step = &BinOp{"+", v("acc"), ev(v("n"))}
		case KString:
			step = &BinOp{"+", v("acc"), call("frt.Sprintf1", &StrLit{"%d;"}, ev(v("n")))}
		default:
			step = call("slice.PushLast", ev(v("n")), v("acc"))
		}
		body := &Block{Result: &If{Cond: &BinOp{"<=", v("n"), &IntLit{V: 0}}, Then: ExprBlock(v("acc")), Else: ExprBlock(self(dec, step))}}
		f = &FuncDef{Name: name, Params: []Param{{Name: "n", T: TInt}, {Name: "acc", T: at}}, Ret: at, AnnotRet: true, Body: body}
		g.feat("recursion-accumulator")
	case 2:
		// structural recursion over a slice
		body := &Block{Result: &If{Cond: call("slice.IsEmpty", v("xs")), Then: ExprBlock(ev(&IntLit{V: g.R.Intn(3)})),
			Else: ExprBlock(&BinOp{core.Pick(g.R, []string{"+", "-"}), ev(call("slice.Head", v("xs"))), self(call("slice.Tail", v("xs")))})}}
		f = &FuncDef{Name: name, Params: []Param{{Name: "xs", T: TSlice(TInt)}}, Ret: TInt, AnnotRet: true, Body: body}
		g.feat("recursion-over-slice")
	case 3:
		// nothing annotated: the types come out of the recursion itself (let fib n = ...)
		body := &Block{Result: &If{Cond: &BinOp{"<", v("n"), &IntLit{V: 2}}, Then: ExprBlock(v("n")),
			Else: ExprBlock(&BinOp{"+", self(dec), self(&BinOp{"-", v("n"), &IntLit{V: 2}})})}}
		f = &FuncDef{Name: name, Params: []Param{{Name: "n", T: TInt, NoAnnot: true}}, Ret: TInt, Body: body, Pure: true}
		g.feat("recursion-unannotated")
	default:
		// recursion with the call in a let and a statement before it, building a slice of strings
		body := &Block{Result: &If{Cond: &BinOp{"<=", v("n"), &IntLit{V: 0}}, Then: ExprBlock(&SliceLit{Elems: []Expr{&StrLit{"end"}}}),
			Else: &Block{Stmts: []Stmt{&ExprStmt{call("trace", &StrLit{g.tag()})}, &Let{"rest", self(dec)}},
				Result: call("slice.PushHead", call("frt.Sprintf1", &StrLit{"n%d"}, v("n")), v("rest"))}}}
		f = &FuncDef{Name: name, Params: []Param{{Name: "n", T: TInt}}, Ret: TSlice(TString), AnnotRet: true, Body: body}
		g.feat("recursion-let-and-statement")
	}
	f.Rec = true
	g.funcs = append(g.funcs, f)
	g.add(f)
}

// genClosureMaker: a function that runs an effect and returns a lambda closing over its
// parameter (and over a local); observed by binding the result once and applying it twice.
func (g *Gen) genClosureMaker() {
	name := g.fresh("mk")
	at := core.Pick(g.R, []*Type{TInt, TString})
	bt := core.Pick(g.R, []*Type{TInt, TString})
	sc := &scope{goNames: map[string]bool{}}
	sc.add("a", at)
	local := g.expr(at, sc, 1, true)
	lsc := sc.child(true)
	lsc.add("loc", at)
	lsc.add("b", bt)
	rt := core.Pick(g.R, []*Type{TInt, TString, TBool})
	bodyE := g.expr(rt, lsc, 2, true)
	// make sure the lambda really closes over something
	var res Expr = bodyE
	switch {
	case rt.K == KInt && at.K == KInt:
		res = &BinOp{"+", bodyE, v("loc")}
	case rt.K == KString && at.K == KString:
		res = &BinOp{"+", bodyE, v("a")}
	case rt.K == KBool:
		res = &BinOp{"&&", &BinOp{"=", v("loc"), v("a")}, bodyE}
	}
	if !FreeInExpr(res, "loc") {
		// (an unused let is an error of the Go compiler)
		res = call("frt.Snd", &TupleLit{Elems: []Expr{v("loc"), res}})
	}
	lam := &Lambda{Params: []Param{{Name: "b", T: bt}}, Body: ExprBlock(res)}
	body := &Block{Stmts: []Stmt{&ExprStmt{call("trace", &StrLit{g.tag()})}, &Let{"loc", local}}, Result: lam}
	f := &FuncDef{Name: name, Params: []Param{{Name: "a", T: at}}, Ret: TFunc(bt, rt), Body: body, Rec: true}
	g.funcs = append(g.funcs, f)
	g.add(f)
	g.feat("function-returning-closure")
}

func (g *Gen) genRun() {
	// The observation calls are spread over several small functions: fc allots a fixed
	// number of type variables per top-level definition, which one huge Run would exhaust.
	var parts []string
	var sc *scope
	var stmts []Stmt
	flush := func() {
		if len(stmts) == 0 {
			return
		}
		name := fmt.Sprintf("runPart%d", len(parts)+1)
		parts = append(parts, name)
		g.add(&FuncDef{Name: name, Ret: TUnit, Body: &Block{Stmts: stmts, Result: call("trace", &StrLit{name})}})
		stmts = nil
	}
	nCalls := 0
	emitShow := func(t *Type, e Expr) {
		if nCalls%3 == 0 {
			flush()
			sc = &scope{goNames: map[string]bool{}}
		}
		nCalls++
		if t.K == KUnit {
			stmts = append(stmts, &ExprStmt{e})
			return
		}
		if g.R.Chance(0.3) {
			n := g.fresh("r")
			stmts = append(stmts, &Let{n, e})
			sc.add(n, t)
			stmts = append(stmts, &ExprStmt{call("frt.Println", g.show(t, v(n)))})
			return
		}
		stmts = append(stmts, &ExprStmt{call("frt.Println", g.show(t, e))})
	}
	sc = &scope{goNames: map[string]bool{}}
	for _, f := range g.funcs {
		if f.Ret != nil && f.Ret.K == KFunc && f.Rec {
			// a closure maker: bind the closure once, apply it twice
			flush()
			sc = &scope{goNames: map[string]bool{}}
			cn := g.fresh("cl")
			stmts = append(stmts, &Let{cn, &Call{Fn: v(f.Name), Args: []Expr{g.expr(f.Params[0].T, sc, 1, true)}}})
			for q := 0; q < 2; q++ {
				stmts = append(stmts, &ExprStmt{call("frt.Println", g.show(f.Ret.Result(), &Call{Fn: v(cn), Args: []Expr{g.expr(f.Ret.Params()[0], sc, 1, true)}}))})
			}
			nCalls = 0
			flush()
			sc = &scope{goNames: map[string]bool{}}
			continue
		}
		times := 1 + g.R.Intn(2)
		if f.Rec {
			times = 1
		}
		for k := 0; k < times; k++ {
			if nCalls%3 == 0 {
				flush()
				sc = &scope{goNames: map[string]bool{}}
			}
			var args []Expr
			if len(f.Params) == 0 {
				args = []Expr{&UnitLit{}}
			}
			for _, p := range f.Params {
				if f.Rec {
					switch p.T.K {
					case KInt:
						args = append(args, &IntLit{V: g.R.Intn(5)})
					case KString:
						args = append(args, &StrLit{g.strLitVal()})
					case KUnion:
						args = append(args, g.expr(p.T, sc, 4, true))
					default: // slice of int
						sl := &SliceLit{Elem: TInt}
						nq := g.R.Intn(4)
						if g.P.Name == "tinyfo" && nq == 0 {
							nq = 1
						}
						for q := nq; q > 0; q-- {
							sl.Elems = append(sl.Elems, &IntLit{V: g.R.Intn(9)})
						}
						if len(sl.Elems) == 0 {
							args = append(args, &Call{Fn: v("slice.New"), TArgs: []*Type{TInt}, Args: []Expr{&UnitLit{}}})
						} else {
							args = append(args, sl)
						}
					}
				} else {
					args = append(args, g.expr(p.T, sc, 2, true))
				}
			}
			emitShow(f.Ret, &Call{Fn: v(f.Name), Args: args})
		}
	}
	for _, gv := range g.gvars {
		emitShow(gv.T, v(gv.Name))
	}
	flush()
	var rs []Stmt
	for _, p := range parts {
		rs = append(rs, &ExprStmt{call(p, &UnitLit{})})
	}
	g.add(&FuncDef{Name: "Run", Ret: TUnit, Body: &Block{Stmts: rs, Result: call("trace", &StrLit{"end"})}})
}

// shadowProbe appends `let v = match <union value> with | C o -> show_T o | _ -> if c then o else "lit"`
// where the binder o of the first arm has the name of an OUTER string variable and another type:
// after that arm the outer variable is used where its type shows (a branch of an if). Reports
// false when the scope offers no such variable / union.
func (g *Gen) shadowProbe(b *Block, sc *scope, fx bool, out *struct {
	idx  int
	used []*bool
}) bool {
	var outer *vinfo
	for _, vi := range sc.visible(nil) {
		vi := vi
		if vi.t.K == KString && !sc.goNames[vi.name] {
			outer = &vi
		}
	}
	if outer == nil {
		return false
	}
	_ = outer
	m := g.shadowProbeExpr(sc, fx)
	if m == nil {
		return false
	}
	name := g.letName(sc)
	b.Stmts = append(b.Stmts, &Let{name, m})
	u := sc.add(name, TString)
	out.idx, out.used = len(b.Stmts)-1, []*bool{u}
	return true
}

// shadowProbeExpr builds the match of shadowProbe (a string-valued expression), or nil.
func (g *Gen) shadowProbeExpr(sc *scope, fx bool) Expr {
	var outer *vinfo
	for _, vi := range sc.visible(nil) {
		vi := vi
		if vi.t.K == KString && !sc.goNames[vi.name] {
			outer = &vi
		}
	}
	if outer == nil {
		return nil
	}
	for _, ud := range g.unions {
		if ud.Generic || len(ud.Cases) < 2 {
			continue
		}
		for ci, c := range ud.Cases {
			if c.Payload == nil || c.Payload.K == KString || c.Payload.K == KFunc || g.shows[c.Payload.String()] == "" {
				continue
			}
			target := g.lit(TUnion(ud.Name), sc, 2, fx)
			m := &MatchU{Target: target, Union: ud,
				Arms:    []UArm{{Case: ci, Bind: outer.name, Body: ExprBlock(g.show(c.Payload, v(outer.name)))}},
				Default: ExprBlock(&If{Cond: g.expr(TBool, sc, 1, false), Then: ExprBlock(v(outer.name)), Else: ExprBlock(&StrLit{g.strLitVal()})})}
			*outer.used = true
			g.feat("shadow-probe-match")
			return m
		}
	}
	return nil
}

// ---- blocks -----------------------------------------------------------------------

// block generates a block of type t. newGo says whether the block is a new Go scope
// whose names may shadow outer ones.
func (g *Gen) block(t *Type, outer *scope, d int, fx bool, funcTop bool) *Block {
	sc := outer.child(!funcTop)
	if funcTop {
		sc = outer // parameters and the function body share one Go scope
	}
	isTop := g.inTopBlock && funcTop
	g.inTopBlock = false
	_ = isTop
	b := &Block{}
	type pending struct {
		idx  int
		used []*bool
	}
	var pend []pending
	var pend0 struct {
		idx  int
		used []*bool
	}
	ns := 0
	if d > 0 {
		ns = g.R.Intn(3)
		if fx && g.R.Chance(0.3) {
			ns++
		}
	}
	innerUsed := map[string]*InnerFun{}
	for i := 0; i < ns; i++ {
		switch k := g.R.Intn(10); {
		case k < 5 && g.P.Shadow && !g.P.NoMatch && !g.P.NoIf && !g.P.LetRhsInline && g.R.Chance(0.12) && g.shadowProbe(b, sc, fx, &pend0):
			// (statement appended by shadowProbe)
			pend = append(pend, pending{pend0.idx, pend0.used})
		case k < 5: // let
			vt := g.pickValueType()
			var e Expr
			if g.P.LetRhsInline {
				e = g.expr(vt, sc, d-1, fx)
			} else {
				e = g.blockExpr(vt, sc, d-1, fx)
			}
			name := g.letName(sc)
			b.Stmts = append(b.Stmts, &Let{name, e})
			u := sc.add(name, vt)
			pend = append(pend, pending{len(b.Stmts) - 1, []*bool{u}})
			g.feat("let")
		case k < 6 && (g.P.Tuple3 || true): // destructuring let
			tt := TTuple(TInt, TString)
			if g.P.Tuple3 && g.R.Chance(0.4) {
				tt = TTuple(TInt, TBool, TString)
			}
			e := g.expr(tt, sc, d-1, fx)
			var names []string
			var us []*bool
			for _, et := range tt.Args {
				n := g.letName(sc)
				names = append(names, n)
				us = append(us, sc.add(n, et))
			}
			b.Stmts = append(b.Stmts, &LetDestr{names, e})
			pend = append(pend, pending{len(b.Stmts) - 1, us})
			g.feat("destructuring-let")
		case k < 8 && fx && g.P.Stateful && g.P.SliceLib && g.R.Chance(0.12):
			// slice values that share storage (a PopLast prefix of a computed slice; two values grown
			// from one computed slice) are extended by library calls, and ALL of them are shown
			// afterwards: every value keeps the contents it had
			{
				base := g.letName(sc)
				src := &SliceLit{Elem: TInt}
				for q, nq := 0, 3+g.R.Intn(3); q < nq; q++ {
					src.Elems = append(src.Elems, &IntLit{V: g.R.Intn(9)})
				}
				var be Expr = src
				if g.P.Lambdas && g.R.Bool() {
					x := g.fresh("x")
					be = call("slice.Map", g.lam([]Param{{Name: x, T: TInt}}, &BinOp{"+", v(x), &IntLit{V: 1}}), src)
				}
				b.Stmts = append(b.Stmts, &Let{base, be})
				sc.add(base, TSlice(TInt))
				front := g.letName(sc)
				b.Stmts = append(b.Stmts, &Let{front, call("slice.PopLast", v(base))})
				sc.add(front, TSlice(TInt))
				grow := func(from string, k int) Expr {
					one := &SliceLit{Elem: TInt, Elems: []Expr{&IntLit{V: 90 + k}}}
					switch g.R.Intn(4) {
					case 0:
						return call("slice.Append", v(from), one)
					case 1:
						return call("slice.PushLast", &IntLit{V: 90 + k}, v(from))
					case 2:
						return call("slice.Concat", &SliceLit{Elem: TSlice(TInt), Elems: []Expr{v(from), one}})
					}
					return call("slice.PushHead", &IntLit{V: 90 + k}, v(from))
				}
				names := []string{base, front}
				for q := 0; q < 2; q++ {
					n := g.letName(sc)
					b.Stmts = append(b.Stmts, &Let{n, grow(core.Pick(g.R, []string{front, front, base}), q)})
					sc.add(n, TSlice(TInt))
					names = append(names, n)
				}
				for _, n := range names {
					for _, vi := range sc.visible(nil) {
						if vi.name == n {
							*vi.used = true
						}
					}
					b.Stmts = append(b.Stmts, &ExprStmt{call("frt.Println", g.show(TSlice(TInt), v(n)))})
				}
				g.feat("shared-storage-group")
			}
		case k < 8 && fx && g.P.Stateful && g.R.Chance(0.25):
			// a mutable library object used in a straight line: buffer or dictionary
			if g.R.Bool() {
				g.needImport("buf")
				bn := g.fresh("bf")
				sc.goNames[bn] = true
				b.Stmts = append(b.Stmts, &Let{bn, call("buf.New", &UnitLit{})})
				for w, nw := 0, 1+g.R.Intn(3); w < nw; w++ {
					b.Stmts = append(b.Stmts, &ExprStmt{call("buf.Write", v(bn), g.expr(TString, sc, d-1, fx))})
				}
				sn := g.letName(sc)
				b.Stmts = append(b.Stmts, &Let{sn, call("buf.String", v(bn))})
				u := sc.add(sn, TString)
				pend = append(pend, pending{len(b.Stmts) - 1, []*bool{u}})
				g.feat("buf-group")
			} else {
				g.needImport("dict")
				dn := g.fresh("dc")
				sc.goNames[dn] = true
				b.Stmts = append(b.Stmts, &Let{dn, &Call{Fn: v("dict.New"), TArgs: []*Type{TString, TInt}, Args: []Expr{&UnitLit{}}}})
				keys := []string{"k1", "k2", "k3"}
				first := core.Pick(g.R, keys)
				b.Stmts = append(b.Stmts, &ExprStmt{call("dict.Add", v(dn), &StrLit{first}, g.expr(TInt, sc, d-1, fx))})
				for w, nw := 0, g.R.Intn(4); w < nw; w++ {
					b.Stmts = append(b.Stmts, &ExprStmt{call("dict.Add", v(dn), &StrLit{core.Pick(g.R, keys)}, g.expr(TInt, sc, d-1, fx))})
				}
				in := g.letName(sc)
				b.Stmts = append(b.Stmts, &Let{in, call("dict.Item", v(dn), &StrLit{first})})
				u1 := sc.add(in, TInt)
				pend = append(pend, pending{len(b.Stmts) - 1, []*bool{u1}})
				cn := g.letName(sc)
				b.Stmts = append(b.Stmts, &Let{cn, call("dict.ContainsKey", v(dn), &StrLit{core.Pick(g.R, append(keys, "zz"))})})
				u2 := sc.add(cn, TBool)
				pend = append(pend, pending{len(b.Stmts) - 1, []*bool{u2}})
				g.feat("dict-group")
			}
		case k < 8 && fx && g.P.DiscardMatch && !g.P.NoMatch && d >= 2 && g.R.Chance(0.2):
			// a match in statement position whose arms yield a value nobody receives (the arms are
			// evaluated for their effects; the statements after it must still run)
			mt := core.Pick(g.R, []*Type{TInt, TString})
			var me Expr
			if g.P.StrMatch && g.R.Chance(0.4) {
				me = g.matchS(mt, sc, d-1, true)
			} else {
				me = g.matchU(mt, sc, d-1, true)
			}
			if me == nil {
				b.Stmts = append(b.Stmts, &ExprStmt{g.unitExpr(sc, d-1)})
			} else {
				b.Stmts = append(b.Stmts, &ExprStmt{me})
				g.feat("match-statement-value-discarded")
			}
		case k < 8 && fx: // unit statement
			b.Stmts = append(b.Stmts, &ExprStmt{g.unitExpr(sc, d-1)})
		case k < 9 && g.P.InnerFun && d >= 2 && isTop:
			// inner function, used exactly once later in this block (in the result)
			pt := core.Pick(g.R, []*Type{TInt, TString})
			in := &InnerFun{Name: g.fresh("inner"), Params: []Param{{Name: g.fresh("q"), T: pt}}}
			isc := sc.child(true)
			isc.add(in.Params[0].Name, pt)
			rt := t
			if rt.K == KUnit {
				rt = TInt
			}
			in.Body = g.block(rt, isc, d-2, fx, true)
			b.Stmts = append(b.Stmts, in)
			sc.goNames[in.Name] = true
			innerUsed[in.Name] = in
			g.feat("inner-function")
		}
	}
	// result
	if len(innerUsed) > 0 {
		// call every inner function; the last call is the block result when types allow
		names := make([]string, 0, len(innerUsed))
		for n := range innerUsed {
			names = append(names, n)
		}
		sort.Strings(names)
		for i, n := range names {
			in := innerUsed[n]
			c := call(n, g.expr(in.Params[0].T, sc, d-1, fx))
			if i == len(names)-1 && t.K != KUnit {
				b.Result = c
			} else if t.K == KUnit {
				// inner returns int: observe it
				b.Stmts = append(b.Stmts, &ExprStmt{call("frt.Println", g.show(TInt, c))})
			} else {
				nm := g.letName(sc)
				b.Stmts = append(b.Stmts, &Let{nm, c})
				u := sc.add(nm, t)
				pend = append(pend, pending{len(b.Stmts) - 1, []*bool{u}})
			}
		}
		if b.Result == nil {
			b.Result = g.blockExpr(t, sc, d-1, fx)
		}
	} else {
		if t.K == KString && d >= 1 && g.P.Shadow && g.P.LetRhsInline && !g.P.NoMatch && !g.P.NoIf && g.R.Chance(0.2) {
			// profiles whose let takes one-line right-hand sides only: the shadow probe is the block result
			b.Result = g.shadowProbeExpr(sc, fx)
		}
		if b.Result == nil {
			b.Result = g.blockExpr(t, sc, d-1, fx)
		}
	}
	// every binding must be used: observe unused ones (effects allowed) or drop them
	// (pure). Usage is computed on the finished syntax tree, last statement first,
	// so that dropping one binding can make an earlier one unused.
	types := map[Stmt][]*Type{}
	for _, p := range pend {
		switch s := b.Stmts[p.idx].(type) {
		case *Let:
			types[s] = []*Type{typeOfVar(sc, s.Name)}
		case *LetDestr:
			var ts []*Type
			for _, n := range s.Names {
				ts = append(ts, typeOfVar(sc, n))
			}
			types[s] = ts
		}
	}
	var extra []Stmt
	for i := len(b.Stmts) - 1; i >= 0; i-- {
		rest := append(append([]Stmt{}, b.Stmts[i+1:]...), extra...)
		switch s := b.Stmts[i].(type) {
		case *Let:
			if freeInSeq(rest, b.Result, s.Name) {
				continue
			}
			if fx {
				extra = append([]Stmt{&ExprStmt{call("frt.Println", g.show(types[s][0], v(s.Name)))}}, extra...)
				g.feat("observed-unused-let")
			} else {
				b.Stmts = append(b.Stmts[:i:i], b.Stmts[i+1:]...)
			}
		case *LetDestr:
			anyUsed := false
			usedN := make([]bool, len(s.Names))
			for k, n := range s.Names {
				if n != "_" && freeInSeq(rest, b.Result, n) {
					usedN[k], anyUsed = true, true
				}
			}
			if !anyUsed {
				if fx {
					extra = append([]Stmt{&ExprStmt{call("frt.Println", g.show(types[s][0], v(s.Names[0])))}}, extra...)
					usedN[0] = true
				} else {
					b.Stmts = append(b.Stmts[:i:i], b.Stmts[i+1:]...)
					continue
				}
			}
			for k := range s.Names {
				if !usedN[k] {
					s.Names[k] = "_"
				}
			}
		case *InnerFun:
			if !freeInSeq(rest, b.Result, s.Name) {
				b.Stmts = append(b.Stmts[:i:i], b.Stmts[i+1:]...)
			}
		}
	}
	b.Stmts = append(b.Stmts, extra...)
	return b
}

func typeOfVar(sc *scope, name string) *Type {
	for x := sc; x != nil; x = x.parent {
		for i := len(x.vars) - 1; i >= 0; i-- {
			if x.vars[i].name == name {
				return x.vars[i].t
			}
		}
	}
	panic("typeOfVar: " + name)
}

// letName picks a fresh name, or (rarely) shadows a local of an enclosing Go block.
func (g *Gen) letName(sc *scope) string {
	sp := g.P.ShadowProb
	if sp == 0 {
		sp = 0.08
	}
	if g.P.Shadow && g.R.Chance(sp) {
		var cands []string
		for _, vi := range sc.visible(nil) {
			if !sc.goNames[vi.name] {
				cands = append(cands, vi.name)
			}
		}
		if len(cands) > 0 {
			g.feat("shadowing")
			return core.Pick(g.R, cands)
		}
	}
	return g.fresh("v")
}

// unitExpr generates a unit-valued statement expression.
func (g *Gen) unitExpr(sc *scope, d int) Expr {
	switch k := g.R.Intn(10); {
	case k < 4:
		g.feat("trace-stmt")
		return call("trace", &StrLit{g.tag()})
	case k < 6 && g.P.IfOnly && d > 0:
		g.feat("if-only")
		return &If{Cond: g.expr(TBool, sc, d-1, true), Then: g.block(TUnit, sc, d-1, true, false)}
	case k < 7 && g.P.SliceLib && g.P.Lambdas:
		g.feat("slice.Iter")
		et := core.Pick(g.R, []*Type{TInt, TString})
		p := g.fresh("x")
		lsc := sc.child(true)
		lsc.add(p, et)
		body := call("frt.Println", g.show(et, g.expr(et, lsc, 1, true)))
		return call("slice.Iter", g.lam([]Param{{Name: p, T: et}}, body), g.expr(TSlice(et), sc, d-1, true))
	case k < 8:
		// call a unit user function if there is one
		for _, f := range g.funcs {
			if f.Ret.K == KUnit && !f.Rec {
				return g.callFunc(f, sc, d, true)
			}
		}
	case k < 9 && g.P.UnitIfElse && d > 0:
		// unit-typed if / elif / else. The last statement of a branch that is followed by
		// elif / else is never an else-less `if` (known finding C06/dangling-else)
		g.feat("unit-if-else")
		e := &If{Cond: g.expr(TBool, sc, d-1, true), Then: g.unitBranch(sc, d-1)}
		if _, isIf := e.Then.Result.(*If); !isIf && g.R.Chance(0.35) {
			// often the then branch ends with a ONE-LINE else-less if: the else below is the outer one's
			e.Then.Stmts = append(e.Then.Stmts, &ExprStmt{e.Then.Result})
			// (a closed condition: the branch's own block may have shadowed any outer name with another type)
			e.Then.Result = &If{Cond: &BinOp{core.Pick(g.R, []string{"<", ">", "=", "<>"}), &IntLit{V: g.R.Intn(3)}, &IntLit{V: g.R.Intn(3)}}, Then: ExprBlock(call("trace", &StrLit{g.tag()})), OneLine: true}
			g.feat("one-line-else-less-if-before-else")
		}
		for g.R.Chance(0.3) && len(e.Elifs) < 2 {
			e.Elifs = append(e.Elifs, Elif{g.expr(TBool, sc, d-1, true), g.unitBranch(sc, d-1)})
		}
		e.Else = g.block(TUnit, sc, d-1, true, false)
		return e
	case k < 10 && g.P.PipeStmt:
		g.feat("pipe-statement")
		src := g.expr(TString, sc, d, true)
		if strings.HasPrefix((&printer{lay: Canonical{}, tiny: g.prog.Tiny}).inline(src, 4), "$") {
			// a statement must not begin with $" (known finding sinterp-column): apply instead
			return call("frt.Println", src)
		}
		return &Pipe{src, v("frt.Println")}
	}
	t := core.Pick(g.R, []*Type{TInt, TString, TBool})
	return call("frt.Println", g.show(t, g.expr(t, sc, d, true)))
}

// unitBranch is a unit block whose last statement is not an else-less if.
func (g *Gen) unitBranch(sc *scope, d int) *Block {
	b := g.block(TUnit, sc, d, true, false)
	if i, ok := b.Result.(*If); ok && i.Else == nil {
		_, nested := i.Then.Result.(*If)
		if len(i.Elifs) == 0 && len(i.Then.Stmts) == 0 && !nested && inlineOK(i.Then.Result) && inlineOK(i.Cond) && g.R.Bool() {
			// written on ONE line in every layout, the else-less if ends with its line: the else /
			// elif that follows belongs to the enclosing if (the several-line form is known finding C06/4)
			i.OneLine = true
			g.feat("one-line-else-less-if-before-else")
			return b
		}
		b.Stmts = append(b.Stmts, &ExprStmt{b.Result})
		b.Result = call("trace", &StrLit{g.tag()})
	}
	return b
}

// blockExpr generates an expression for a block position (block result, right-hand
// side of a let): multi-line constructs are allowed here.
func (g *Gen) blockExpr(t *Type, sc *scope, d int, fx bool) Expr {
	if t.K == KUnit {
		if !fx {
			return &UnitLit{}
		}
		return g.unitExpr(sc, d)
	}
	if d <= 0 {
		return g.expr(t, sc, 0, fx)
	}
	switch k := g.R.Intn(10); {
	case k < 2 && !g.P.NoIf:
		return g.ifExpr(t, sc, d, fx)
	case k < 4 && !g.P.NoMatch:
		if m := g.matchU(t, sc, d, fx); m != nil {
			return m
		}
	case k < 5 && g.P.StrMatch:
		return g.matchS(t, sc, d, fx)
	}
	return g.expr(t, sc, d, fx)
}

func (g *Gen) ifExpr(t *Type, sc *scope, d int, fx bool) Expr {
	e := &If{Cond: g.expr(TBool, sc, d-1, fx), Then: g.block(t, sc, d-1, fx, false)}
	for g.R.Chance(0.3) && len(e.Elifs) < 2 {
		e.Elifs = append(e.Elifs, Elif{g.expr(TBool, sc, d-1, fx), g.block(t, sc, d-1, fx, false)})
		g.feat("elif")
	}
	e.Else = g.block(t, sc, d-1, fx, false)
	g.feat("if-else")
	return e
}

// unionSource finds an expression of some union type whose type is known when parsed.
func (g *Gen) unionSource(sc *scope, d int, fx bool) (Expr, *UnionDef) {
	ud := core.Pick(g.R, g.unions)
	ut := TUnion(ud.Name)
	if vs := sc.visible(ut); len(vs) > 0 && g.R.Chance(0.7) {
		vi := core.Pick(g.R, vs)
		*vi.used = true
		return v(vi.name), ud
	}
	// a user function returning the union (type known from its definition)
	for _, f := range g.funcs {
		if f.Ret.Eq(ut) && !f.Rec && (fx || f.Pure) && g.R.Chance(0.5) && f != g.curFunc {
			return g.callFunc(f, sc, d-1, fx), ud
		}
	}
	// a constructor application (as in samples/union_match.fo: `match IT 3 with`)
	if g.R.Chance(0.6) {
		return g.lit(ut, sc, d-1, fx), ud
	}
	return nil, ud
}

func (g *Gen) matchU(t *Type, sc *scope, d int, fx bool) Expr {
	target, ud := g.unionSource(sc, d, fx)
	if target == nil {
		return nil
	}
	m := &MatchU{Target: target, Union: ud}
	shadowedOuter, shadowArm := "", -1
	order := make([]int, len(ud.Cases))
	for i := range order {
		order[i] = i
	}
	core.Shuffle(g.R, order)
	nArms := len(order)
	withDefault := !g.P.UnionNoDef || g.R.Chance(0.35)
	if withDefault {
		nArms = g.R.Intn(len(order) + 1)
		if nArms == 0 && len(order) > 0 {
			nArms = 1
		}
		if nArms == len(order) && len(order) > 1 {
			nArms--
		}
	}
	for _, ci := range order[:nArms] {
		c := ud.Cases[ci]
		arm := UArm{Case: ci}
		asc := sc.child(true)
		var used *bool
		if c.Payload != nil {
			switch g.R.Intn(4) {
			case 0:
				arm.Bind = "_"
			case 1:
				arm.Bind = ""
			default:
				arm.Bind = g.letName(asc)
				// a binder that shadows an outer variable of ANOTHER type (the outer one stays
				// visible in the other arms): compilers that track types per name must scope it
				asp := g.P.ShadowProb
				if asp == 0 {
					asp = 0.1
				}
				if g.P.Shadow && g.R.Chance(asp) {
					var cands, sameAsResult []string
					for _, vi := range sc.visible(nil) {
						if !vi.t.Eq(c.Payload) && vi.t.K != KFunc {
							cands = append(cands, vi.name)
							if vi.t.Eq(t) {
								sameAsResult = append(sameAsResult, vi.name)
							}
						}
					}
					if len(sameAsResult) > 0 && shadowedOuter == "" {
						// an outer variable of the match's own result type: a later arm will yield it
						arm.Bind = core.Pick(g.R, sameAsResult)
						shadowedOuter, shadowArm = arm.Bind, len(m.Arms)
						g.feat("arm-binder-shadows-other-type")
					} else if len(cands) > 0 {
						arm.Bind = core.Pick(g.R, cands)
						g.feat("arm-binder-shadows-other-type")
					}
				}
				used = asc.add(arm.Bind, c.Payload)
			}
		}
		arm.Body = g.block(t, asc, d-1, fx, true)
		if used != nil && !FreeInBlock(arm.Body, arm.Bind) {
			if shadowedOuter == arm.Bind && shadowArm == len(m.Arms) {
				shadowedOuter = "" // the binder is dropped: nothing is shadowed after all
			}
			arm.Bind = "_"
		} else if used != nil {
			g.feat("match-arm-binds-payload")
		}
		m.Arms = append(m.Arms, arm)
	}
	if withDefault {
		m.Default = g.block(t, sc, d-1, fx, false)
		g.feat("union-match-default")
	} else {
		g.feat("union-match-exhaustive")
	}
	if shadowedOuter != "" {
		// after the arm whose binder shadowed it, the OUTER variable is used again where its type
		// shows: as one branch of an if in a later arm (or in the default arm)
		var later *Block
		if shadowArm+1 < len(m.Arms) {
			if m.Arms[shadowArm+1].Bind != shadowedOuter {
				later = m.Arms[shadowArm+1].Body
			}
		} else if m.Default != nil {
			later = m.Default
		}
		if later != nil {
			// (the later arm must not define the name again itself)
			for _, st := range later.Stmts {
				switch x := st.(type) {
				case *Let:
					if x.Name == shadowedOuter {
						later = nil
					}
				case *LetDestr:
					for _, n := range x.Names {
						if n == shadowedOuter {
							later = nil
						}
					}
				case *InnerFun:
					later = nil
				}
				if later == nil {
					break
				}
			}
		}
		if later != nil && inlineOK(later.Result) {
			for _, vi := range sc.visible(nil) {
				if vi.name == shadowedOuter {
					*vi.used = true
				}
			}
			// (a closed condition: the arm's own block may have shadowed any outer name)
			later.Result = &If{Cond: &BinOp{core.Pick(g.R, []string{"<", ">", "="}), &IntLit{V: g.R.Intn(3)}, &IntLit{V: g.R.Intn(3)}}, Then: ExprBlock(v(shadowedOuter)), Else: ExprBlock(later.Result)}
			g.feat("shadowed-outer-variable-used-in-a-later-arm")
		}
	}
	return m
}

func (g *Gen) matchS(t *Type, sc *scope, d int, fx bool) Expr {
	m := &MatchS{Target: g.expr(TString, sc, d-1, fx)}
	n := 1 + g.R.Intn(3)
	seen := map[string]bool{}
	for i := 0; i < n; i++ {
		lit := g.strLitVal()
		if seen[lit] {
			continue
		}
		seen[lit] = true
		m.Arms = append(m.Arms, SArm{lit, g.block(t, sc, d-1, fx, false)})
	}
	if len(m.Arms) > 0 && g.R.Chance(0.5) {
		// the target is the text of one of the literal rules (so that the literal arms are reached)
		m.Target = &StrLit{m.Arms[g.R.Intn(len(m.Arms))].Lit}
		if fx && g.R.Bool() {
			m.Target = call("evS", &StrLit{g.tag()}, m.Target)
		}
		g.feat("string-match-target-equals-a-rule")
	}
	if g.R.Chance(0.5) {
		dsc := sc.child(true)
		// the variable of a variable rule is always a fresh name: fc declares it for the
		// whole switch, so shadowing an outer name here is the known finding
		// C01/string-match-variable-scope, exercised by its corpus witness only
		m.VarName = g.fresh("v")
		dsc.add(m.VarName, TString)
		m.Default = g.block(t, dsc, d-1, fx, true)
		if !FreeInBlock(m.Default, m.VarName) {
			m.VarName = ""
		} else {
			g.feat("string-match-var-rule")
		}
	} else {
		m.Default = g.block(t, sc, d-1, fx, false)
	}
	g.feat("string-match")
	return m
}

// ---- inline expressions -------------------------------------------------------------

func (g *Gen) useVar(t *Type, sc *scope) Expr {
	vs := sc.visible(t)
	if len(vs) == 0 {
		return nil
	}
	// prefer variables not used yet
	var unused []vinfo
	for _, x := range vs {
		if !*x.used {
			unused = append(unused, x)
		}
	}
	var vi vinfo
	if len(unused) > 0 && g.R.Chance(0.7) {
		vi = core.Pick(g.R, unused)
	} else {
		vi = core.Pick(g.R, vs)
	}
	*vi.used = true
	return v(vi.name)
}

func (g *Gen) gvar(t *Type) Expr {
	var c []*VarDef
	for _, x := range g.gvars {
		if x.T.Eq(t) && !g.hiddenGlobals[x.Name] {
			c = append(c, x)
		}
	}
	if len(c) == 0 {
		return nil
	}
	return v(core.Pick(g.R, c).Name)
}

func (g *Gen) lit(t *Type, sc *scope, d int, fx bool) Expr {
	switch t.K {
	case KInt:
		if g.P.PaddedInts && g.R.Chance(0.12) {
			// decimal literals written with leading zeros (a zero-padded table): 08, 010, 0011
			g.feat("zero-padded-int-literal")
			return &IntLit{V: 7 + g.R.Intn(5), Pad: 2 + g.R.Intn(3)}
		}
		return &IntLit{V: g.R.Intn(12)}
	case KString:
		if g.P.RawStr && g.R.Chance(0.1) {
			g.feat("raw-string")
			return &RawLit{core.Pick(g.R, []string{"raw", "r \"q\" \\n", "a\nb", ""})}
		}
		return &StrLit{g.strLitVal()}
	case KBool:
		return &BoolLit{g.R.Bool()}
	case KUnit:
		return &UnitLit{}
	case KSlice:
		n := g.R.Intn(4)
		if g.P.Name == "tinyfo" && n == 0 {
			n = 1 // no explicit type arguments in tinyfo, hence no slice.New<T> ()
		}
		s := &SliceLit{Elem: t.Elem()}
		for i := 0; i < n; i++ {
			s.Elems = append(s.Elems, g.expr(t.Elem(), sc, d-1, fx))
		}
		if n == 0 {
			// an empty literal has no element type: use slice.New<T> ()
			return &Call{Fn: v("slice.New"), TArgs: []*Type{t.Elem()}, Args: []Expr{&UnitLit{}}}
		}
		g.feat("slice-literal")
		return s
	case KTuple:
		tl := &TupleLit{}
		for _, a := range t.Args {
			tl.Elems = append(tl.Elems, g.expr(a, sc, d-1, fx))
		}
		g.feat(fmt.Sprintf("tuple%d-literal", len(t.Args)))
		return tl
	case KRec:
		rd := g.rec(t.Name)
		rl := &RecLit{Rec: rd}
		for _, f := range rd.Fields {
			rl.Fields = append(rl.Fields, g.expr(f.T, sc, d-1, fx))
		}
		if g.P.FieldPerm && len(rd.Fields) > 1 && g.R.Chance(0.3) {
			for i := range rd.Fields {
				rl.Order = append(rl.Order, i)
			}
			core.Shuffle(g.R, rl.Order)
			g.feat("record-literal-field-order")
		}
		if g.P.FieldPerm && g.R.Chance(0.2) {
			rl.Prefix = true
			g.feat("record-literal-prefixed")
		}
		g.feat("record-literal")
		return rl
	case KUnion:
		ud := g.union(t.Name)
		ci := g.R.Intn(len(ud.Cases))
		if d <= 1 {
			// a value of a self-referential union must end: only cases that do not mention the union
			var flat []int
			for i, c := range ud.Cases {
				if c.Payload == nil || !mentionsUnion(c.Payload, ud.Name) {
					flat = append(flat, i)
				}
			}
			if len(flat) < len(ud.Cases) {
				ci = core.Pick(g.R, flat)
			}
		}
		c := &Ctor{Union: ud, Case: ci}
		if ud.Cases[ci].Payload != nil {
			c.Arg = g.expr(ud.Cases[ci].Payload, sc, d-1, fx)
		}
		g.feat("union-constructor")
		return c
	case KFunc:
		return g.funcValue(t, sc, d, fx)
	}
	panic("lit: " + t.String())
}

// funcValue produces a function value of type t: lambda, named function, or a
// partial application of a pure user function.
func (g *Gen) funcValue(t *Type, sc *scope, d int, fx bool) Expr {
	ps := t.Params()
	// named user function with exactly this type
	var named []*FuncDef
	for _, f := range g.funcs {
		if f.Type().Eq(t) && (fx || f.Pure) && !f.Rec && f != g.curFunc {
			named = append(named, f)
		}
	}
	if len(named) > 0 && g.R.Chance(0.3) {
		g.feat("function-as-value")
		return v(core.Pick(g.R, named).Name)
	}
	// partial application of a pure function: supplied arguments must be effect free
	if g.P.Partial && g.R.Chance(0.3) {
		for _, f := range g.funcs {
			if !f.Pure || f.Rec || f == g.curFunc || len(f.Params) <= len(ps) {
				continue
			}
			k := len(f.Params) - len(ps)
			ok := f.Ret.Eq(t.Result())
			for i, p := range ps {
				if !f.Params[k+i].T.Eq(p) {
					ok = false
				}
			}
			for i := 0; i < k; i++ {
				if f.Params[i].T.K == KFunc {
					ok = false
				}
			}
			if ok {
				var args []Expr
				for i := 0; i < k; i++ {
					args = append(args, g.expr(f.Params[i].T, sc, 1, false))
				}
				g.feat("partial-application-as-value")
				return &Call{Fn: v(f.Name), Args: args}
			}
		}
	}
	if !g.P.Lambdas {
		// no lambdas in this profile: a named pure function or a partial application of one
		for _, f := range g.funcs {
			if !f.Pure || f.Rec || f == g.curFunc || len(f.Params) < len(ps) {
				continue
			}
			k := len(f.Params) - len(ps)
			ok := f.Ret.Eq(t.Result())
			for i, p := range ps {
				if !f.Params[k+i].T.Eq(p) {
					ok = false
				}
			}
			for i := 0; i < k; i++ {
				if f.Params[i].T.K == KFunc {
					ok = false // supplying a function value here could recurse for ever
				}
			}
			if !ok {
				continue
			}
			if k == 0 {
				g.feat("function-as-value")
				return v(f.Name)
			}
			var args []Expr
			for i := 0; i < k; i++ {
				args = append(args, g.expr(f.Params[i].T, sc, 1, false))
			}
			g.feat("partial-application-as-value")
			return &Call{Fn: v(f.Name), Args: args}
		}
		panic("no function value of type " + t.String() + " without lambdas")
	}
	lam := &Lambda{}
	lsc := sc.child(true)
	for _, p := range ps {
		n := g.fresh("x")
		lam.Params = append(lam.Params, Param{Name: n, T: p})
		lsc.add(n, p)
	}
	lam.Body = ExprBlock(g.expr(t.Result(), lsc, min(d-1, 2), fx))
	g.feat("lambda")
	return lam
}

func min(a, b int) int {
	if a < b {
		return a
	}
	return b
}

func (g *Gen) callFunc(f *FuncDef, sc *scope, d int, fx bool) Expr {
	var args []Expr
	if len(f.Params) == 0 {
		args = []Expr{&UnitLit{}}
	}
	for _, p := range f.Params {
		args = append(args, g.expr(p.T, sc, d-1, fx))
	}
	g.feat("user-call")
	return &Call{Fn: v(f.Name), Args: args}
}

// expr generates a single-line expression of type t.
func (g *Gen) expr(t *Type, sc *scope, d int, fx bool) Expr {
	if t.K == KFunc {
		return g.funcValue(t, sc, d, fx)
	}
	if t.K == KUnit {
		if fx {
			return g.unitExpr(sc, d)
		}
		return &UnitLit{}
	}
	if d <= 0 {
		vb := 0.6
		if g.P.Name == "c02" {
			vb = 0.92 // bodies that constrain their parameters
		}
		if g.R.Chance(vb) {
			if e := g.useVar(t, sc); e != nil {
				return e
			}
		}
		if g.R.Chance(0.2) {
			if e := g.gvar(t); e != nil {
				return e
			}
		}
		return g.lit(t, sc, 0, fx)
	}
	// effects: wrap in a tracer
	if fx && g.R.Chance(0.22) {
		switch t.K {
		case KInt:
			g.feat("tracer")
			return call("evI", &StrLit{g.tag()}, g.expr(t, sc, d-1, fx))
		case KString:
			g.feat("tracer")
			return call("evS", &StrLit{g.tag()}, g.expr(t, sc, d-1, fx))
		case KBool:
			g.feat("tracer")
			return call("evB", &StrLit{g.tag()}, g.expr(t, sc, d-1, fx))
		}
	}
	for try := 0; try < 6; try++ {
		if e := g.tryExpr(t, sc, d, fx); e != nil {
			return e
		}
	}
	if e := g.useVar(t, sc); e != nil {
		return e
	}
	return g.lit(t, sc, d, fx)
}

func (g *Gen) tryExpr(t *Type, sc *scope, d int, fx bool) Expr {
	k := g.R.Intn(20)
	// productions common to all types
	switch {
	case k == 0:
		return g.useVar(t, sc)
	case k == 1:
		return g.lit(t, sc, d, fx)
	case k == 2:
		// call a user function returning t
		var c []*FuncDef
		for _, f := range g.funcs {
			if f.Ret.Eq(t) && (fx || f.Pure) && !f.Rec && f != g.curFunc {
				c = append(c, f)
			}
		}
		if len(c) == 0 {
			return nil
		}
		return g.callFunc(core.Pick(g.R, c), sc, d, fx)
	case k == 3 && g.P.NoFieldAcc:
		return nil
	case k == 3:
		// field access on a record variable
		for _, vi := range sc.visible(nil) {
			if vi.t.K != KRec {
				continue
			}
			for _, f := range g.rec(vi.t.Name).Fields {
				if f.T.Eq(t) && g.R.Chance(0.5) {
					*vi.used = true
					g.feat("field-access")
					return &FieldAcc{v(vi.name), f.Name}
				}
				// nested: r.F.G
				if f.T.K == KRec {
					for _, f2 := range g.rec(f.T.Name).Fields {
						if f2.T.Eq(t) && g.R.Chance(0.5) {
							*vi.used = true
							g.feat("nested-field-access")
							return &FieldAcc{&FieldAcc{v(vi.name), f.Name}, f2.Name}
						}
					}
				}
			}
		}
		return nil
	case k == 4 && g.P.Pipes:
		// x |> f   or  x |> f a   (the stage is invoked at once, so its supplied arguments may have effects)
		var c []*FuncDef
		for _, f := range g.funcs {
			if f.Ret.Eq(t) && (fx || f.Pure) && !f.Rec && len(f.Params) >= 1 && f != g.curFunc {
				c = append(c, f)
			}
		}
		if len(c) == 0 {
			return nil
		}
		f := core.Pick(g.R, c)
		last := f.Params[len(f.Params)-1]
		var args []Expr
		for _, p := range f.Params[:len(f.Params)-1] {
			args = append(args, g.expr(p.T, sc, d-1, fx))
		}
		src := g.expr(last.T, sc, d-1, fx)
		g.feat("pipe")
		if len(args) > 0 {
			g.feat("pipe-into-partial-application")
		}
		return &Pipe{src, &Call{Fn: v(f.Name), Args: args}}
	case k == 5:
		// inline if
		if d >= 1 && g.R.Chance(0.5) && !g.P.NoIf {
			g.feat("inline-if")
			return &If{Cond: g.expr(TBool, sc, d-1, fx), Then: ExprBlock(g.expr(t, sc, d-1, fx)), Else: ExprBlock(g.expr(t, sc, d-1, fx))}
		}
		return nil
	case k == 9 && g.P.FuncParamApply:
		// a function-typed parameter applied (once)
		for _, vi := range sc.visible(nil) {
			if vi.t.K == KFunc && len(vi.t.Args) == 2 && vi.t.Result().Eq(t) && !g.applied[vi.name] {
				g.applied[vi.name] = true
				*vi.used = true
				g.feat("function-parameter-applied")
				return &Call{Fn: v(vi.name), Args: []Expr{g.expr(vi.t.Args[0], sc, d-1, fx)}}
			}
		}
		return nil
	case k == 6:
		// frt.Fst / frt.Snd of a tuple
		if t.K == KInt {
			g.feat("frt.Fst")
			return call("frt.Fst", g.expr(TTuple(TInt, TString), sc, d-1, fx))
		}
		if t.K == KString {
			g.feat("frt.Snd")
			return call("frt.Snd", g.expr(TTuple(TInt, TString), sc, d-1, fx))
		}
		return nil
	case k == 7 && g.hasGid && d >= 1:
		g.feat("generic-id-call")
		return call("gid", g.expr(t, sc, d-1, fx))
	case k == 8 && g.hasGsnd && d >= 1:
		g.feat("generic-second-call")
		return call("gsnd", g.expr(g.pickValueType(), sc, d-1, fx), g.expr(t, sc, d-1, fx))
	}
	switch t.K {
	case KInt:
		return g.intExpr(sc, d, fx, k)
	case KString:
		return g.strExpr(sc, d, fx, k)
	case KBool:
		return g.boolExpr(sc, d, fx, k)
	case KSlice:
		return g.sliceExpr(t, sc, d, fx, k)
	}
	if k >= 12 {
		return g.lit(t, sc, d, fx)
	}
	return nil
}

func (g *Gen) intExpr(sc *scope, d int, fx bool, k int) Expr {
	switch {
	case k < 13:
		ops := []string{"+", "-", "+"}
		if g.P.MulDiv {
			ops = append(ops, "*")
		}
		op := core.Pick(g.R, ops)
		g.feat("arith " + op)
		return &BinOp{op, g.expr(TInt, sc, d-1, fx), g.expr(TInt, sc, d-1, fx)}
	case k == 13 && g.P.MulDiv:
		g.feat("arith /")
		return &BinOp{"/", g.expr(TInt, sc, d-1, fx), &IntLit{V: 1 + g.R.Intn(6)}}
	case k == 14 && g.P.SliceLib:
		g.feat("slice.Length")
		et := core.Pick(g.R, []*Type{TInt, TString})
		return call(core.Pick(g.R, []string{"slice.Length", "slice.Len"}), g.expr(TSlice(et), sc, d-1, fx))
	case k == 15 && g.P.StringsLib:
		g.feat("strings.Length")
		return call("strings.Length", g.expr(TString, sc, d-1, fx))
	case k == 16 && g.P.SliceLib && g.P.Lambdas:
		g.feat("slice.Fold")
		a, x := g.fresh("acc"), g.fresh("x")
		lsc := sc.child(true)
		lsc.add(a, TInt)
		lsc.add(x, TInt)
		body := &BinOp{core.Pick(g.R, []string{"+", "-", "*"}), g.expr(TInt, lsc, 1, fx), g.expr(TInt, lsc, 1, fx)}
		return call("slice.Fold", g.lam([]Param{{Name: a, T: TInt}, {Name: x, T: TInt}}, body), g.expr(TInt, sc, d-1, fx), g.expr(TSlice(TInt), sc, d-1, fx))
	case k == 17 && g.P.SliceLib:
		// Head / Last / Item of a slice that is non-empty by construction
		g.feat("slice.Head/Last/Item")
		ne := call("slice.PushLast", g.expr(TInt, sc, d-1, fx), g.expr(TSlice(TInt), sc, d-1, fx))
		switch g.R.Intn(3) {
		case 0:
			return call("slice.Head", ne)
		case 1:
			return call("slice.Last", ne)
		}
		return call("slice.Item", &IntLit{V: 0}, ne)
	}
	return nil
}

func (g *Gen) strExpr(sc *scope, d int, fx bool, k int) Expr {
	switch {
	case k < 11:
		g.feat("string-concat")
		return &BinOp{"+", g.expr(TString, sc, d-1, fx), g.expr(TString, sc, d-1, fx)}
	case k == 11:
		g.feat("frt.Sprintf1")
		if g.R.Bool() {
			return call("frt.Sprintf1", &StrLit{core.Pick(g.R, []string{"%d", "n=%d;", "<%d>"})}, g.expr(TInt, sc, d-1, fx))
		}
		return call("frt.Sprintf1", &StrLit{core.Pick(g.R, []string{"%s", "s=%s.", "%v"})}, g.expr(TString, sc, d-1, fx))
	case k == 12 && g.P.Interp:
		// holes must be variables in scope
		var holes []vinfo
		for _, vi := range sc.visible(nil) {
			if vi.t.K == KInt || vi.t.K == KString || vi.t.K == KBool {
				holes = append(holes, vi)
			}
		}
		si := &SInterp{Raw: g.P.RawStr && g.R.Chance(0.2)}
		// 0..3 holes: a hole-less interpolated literal is still an interpolated literal (its % are text)
		n := g.R.Intn(4)
		if len(holes) == 0 {
			n = 0
		}
		if n == 0 {
			si.Parts = append(si.Parts, SPart{Text: core.Pick(g.R, []string{"100% done", "%", "no hole", "%d of %s", "a%%b"})})
		}
		for i := 0; i < n; i++ {
			if g.R.Chance(0.6) {
				si.Parts = append(si.Parts, SPart{Text: core.Pick(g.R, []string{"a=", " and ", ":", "v ", "-", "x", "(", ")", "% ", "%d"})})
			}
			h := core.Pick(g.R, holes)
			*h.used = true
			si.Parts = append(si.Parts, SPart{Hole: h.name})
		}
		if g.R.Chance(0.5) {
			si.Parts = append(si.Parts, SPart{Text: core.Pick(g.R, []string{".", " end", "!"})})
		}
		g.feat("string-interpolation")
		return si
	case k == 13 && g.P.StringsLib:
		g.feat("strings.Concat")
		return call("strings.Concat", &StrLit{core.Pick(g.R, []string{",", "", "; "})}, g.expr(TSlice(TString), sc, d-1, fx))
	case k == 14 && g.P.StringsLib:
		fn := core.Pick(g.R, []string{"strings.AppendTail", "strings.AppendHead", "strings.TrimSuffix"})
		g.feat(fn)
		return call(fn, g.expr(TString, sc, d-1, fx), g.expr(TString, sc, d-1, fx))
	case k == 15 && g.P.StringsLib:
		g.feat("strings.EncloseWith")
		return call("strings.EncloseWith", &StrLit{"<"}, &StrLit{">"}, g.expr(TString, sc, d-1, fx))
	case k == 16 && g.P.StringsLib && g.P.Pipes:
		// piping into library partial applications
		g.feat("pipe-into-library")
		return &Pipe{g.expr(TString, sc, d-1, fx), &Call{Fn: v("strings.AppendTail"), Args: []Expr{g.expr(TString, sc, d-1, fx)}}}
	}
	return nil
}

func (g *Gen) eqType() *Type {
	if g.P.CompositeEq && g.P.Name == "c01" && g.R.Chance(0.25) {
		return TRec("Rw")
	}
	if g.P.CompositeEq && g.R.Chance(0.5) {
		return core.Pick(g.R, g.univ)
	}
	return core.Pick(g.R, []*Type{TInt, TString, TBool})
}

func (g *Gen) boolExpr(sc *scope, d int, fx bool, k int) Expr {
	switch {
	case k < 12:
		op := core.Pick(g.R, []string{"<", ">", "<=", ">="})
		g.feat("compare " + op)
		if g.P.StrCompare && g.R.Chance(0.15) {
			return &BinOp{op, g.expr(TString, sc, d-1, fx), g.expr(TString, sc, d-1, fx)}
		}
		return &BinOp{op, g.expr(TInt, sc, d-1, fx), g.expr(TInt, sc, d-1, fx)}
	case k < 14:
		et := g.eqType()
		op := core.Pick(g.R, []string{"=", "<>"})
		g.feat("equality " + op + " on " + kindName(et))
		return &BinOp{op, g.expr(et, sc, d-1, fx), g.expr(et, sc, d-1, fx)}
	case k < 16:
		op := core.Pick(g.R, []string{"&&", "||"})
		g.feat("logical " + op)
		if g.R.Chance(0.5) {
			// a left-nested chain mixing && and || (both of one rank, left associative): the printer
			// writes about half of them without parentheses
			var e Expr = &BinOp{op, g.expr(TBool, sc, d-2, fx), g.expr(TBool, sc, d-2, fx)}
			for n := 1 + g.R.Intn(2); n > 0; n-- {
				e = &BinOp{core.Pick(g.R, []string{"&&", "||"}), e, g.expr(TBool, sc, d-2, fx)}
			}
			g.feat("logical-chain")
			return e
		}
		return &BinOp{op, g.expr(TBool, sc, d-1, fx), g.expr(TBool, sc, d-1, fx)}
	case k == 16:
		g.feat("not")
		return &Not{g.expr(TBool, sc, d-1, fx)}
	case k == 17 && g.P.StringsLib:
		fn := core.Pick(g.R, []string{"strings.HasPrefix", "strings.HasSuffix"})
		g.feat(fn)
		return call(fn, g.expr(TString, sc, d-1, fx), g.expr(TString, sc, d-1, fx))
	case k == 18 && g.P.SliceLib:
		g.feat("slice.IsEmpty")
		return call(core.Pick(g.R, []string{"slice.IsEmpty", "slice.IsNotEmpty"}), g.expr(TSlice(TInt), sc, d-1, fx))
	case k == 19 && g.P.MoreSlice && g.P.Lambdas && g.R.Chance(0.35):
		// only the flag of TryFind is observed (a miss returns the zero value)
		g.feat("slice.TryFind")
		x := g.fresh("x")
		lsc := sc.child(true)
		lsc.add(x, TInt)
		return call("frt.Snd", call("slice.TryFind", g.lam([]Param{{Name: x, T: TInt}}, g.expr(TBool, lsc, 1, fx)), g.expr(TSlice(TInt), sc, d-1, fx)))
	case k == 19 && g.P.SliceLib && g.P.Lambdas:
		fn := core.Pick(g.R, []string{"slice.Forall", "slice.Forany"})
		g.feat(fn)
		x := g.fresh("x")
		lsc := sc.child(true)
		lsc.add(x, TInt)
		return call(fn, g.lam([]Param{{Name: x, T: TInt}}, g.expr(TBool, lsc, 1, fx)), g.expr(TSlice(TInt), sc, d-1, fx))
	}
	return nil
}

func kindName(t *Type) string {
	switch t.K {
	case KInt:
		return "int"
	case KString:
		return "string"
	case KBool:
		return "bool"
	case KSlice:
		return "slice"
	case KTuple:
		return "tuple"
	case KRec:
		return "record"
	case KUnion:
		return "union"
	}
	return "other"
}

func (g *Gen) sliceExpr(t *Type, sc *scope, d int, fx bool, k int) Expr {
	if !g.P.SliceLib {
		return nil
	}
	if g.P.MoreSlice && g.P.Lambdas && g.R.Chance(0.25) {
		return g.moreSlice(t, sc, d, fx)
	}
	et := t.Elem()
	switch {
	case k == 9:
		g.feat("slice.PushLast/PushHead")
		return call(core.Pick(g.R, []string{"slice.PushLast", "slice.PushHead"}), g.expr(et, sc, d-1, fx), g.expr(t, sc, d-1, fx))
	case k == 10:
		g.feat("slice.Append")
		return call("slice.Append", g.expr(t, sc, d-1, fx), g.expr(t, sc, d-1, fx))
	case k == 11:
		g.feat("slice.Skip")
		return call("slice.Skip", &IntLit{V: g.R.Intn(3)}, g.expr(t, sc, d-1, fx))
	case k == 12:
		g.feat("slice.Tail/PopLast")
		ne := call("slice.PushLast", g.expr(et, sc, d-1, fx), g.expr(t, sc, d-1, fx))
		return call(core.Pick(g.R, []string{"slice.Tail", "slice.PopLast"}), ne)
	case k == 13 && g.P.Lambdas:
		// Map from some source element type
		st := core.Pick(g.R, []*Type{TInt, TString})
		x := g.fresh("x")
		lsc := sc.child(true)
		lsc.add(x, st)
		g.feat("slice.Map")
		return call("slice.Map", g.lam([]Param{{Name: x, T: st}}, g.expr(et, lsc, min(d-1, 2), fx)), g.expr(TSlice(st), sc, d-1, fx))
	case k == 14 && g.P.Lambdas:
		x := g.fresh("x")
		lsc := sc.child(true)
		lsc.add(x, et)
		g.feat("slice.Filter")
		return call("slice.Filter", g.lam([]Param{{Name: x, T: et}}, g.expr(TBool, lsc, min(d-1, 2), fx)), g.expr(t, sc, d-1, fx))
	case k == 15 && (et.K == KInt || et.K == KString):
		g.feat("slice.Sort")
		return call("slice.Sort", g.expr(t, sc, d-1, fx))
	case k == 16 && (et.K == KInt || et.K == KString || et.K == KBool):
		g.feat("slice.Distinct")
		return call("slice.Distinct", g.expr(t, sc, d-1, fx))
	case k == 17 && et.K == KTuple && len(et.Args) == 2:
		g.feat("slice.Zip")
		// equal lengths by construction: zip a slice with a Map of itself
		a := g.expr(TSlice(et.Args[0]), sc, d-1, false)
		x := g.fresh("x")
		lsc := sc.child(true)
		lsc.add(x, et.Args[0])
		if !g.P.Lambdas {
			return nil
		}
		return call("slice.Zip", a, call("slice.Map", g.lam([]Param{{Name: x, T: et.Args[0]}}, g.expr(et.Args[1], lsc, 1, false)), a))
	case k == 18 && g.P.Pipes && g.P.Lambdas:
		// pipeline: xs |> slice.Filter p |> slice.Map f
		st := core.Pick(g.R, []*Type{TInt, TString})
		x, y := g.fresh("x"), g.fresh("y")
		l1 := sc.child(true)
		l1.add(x, st)
		l2 := sc.child(true)
		l2.add(y, st)
		g.feat("pipeline-filter-map")
		return &Pipe{&Pipe{g.expr(TSlice(st), sc, d-1, fx),
			&Call{Fn: v("slice.Filter"), Args: []Expr{g.lam([]Param{{Name: x, T: st}}, g.expr(TBool, l1, 1, fx))}}},
			&Call{Fn: v("slice.Map"), Args: []Expr{g.lam([]Param{{Name: y, T: st}}, g.expr(et, l2, 1, fx))}}}
	case k == 19 && g.P.UsField && g.P.Pipes && (et.K == KInt || et.K == KString || et.K == KBool):
		// rs |> slice.Map _.Field   (the documented form: the record type flows in from the left)
		for _, r := range g.recs {
			for _, f := range r.Fields {
				if f.T.Eq(et) {
					var src Expr
					if e := g.useVar(TSlice(TRec(r.Name)), sc); e != nil {
						src = e
					} else {
						sl := &SliceLit{Elem: TRec(r.Name)}
						for i := 0; i < 1+g.R.Intn(3); i++ {
							sl.Elems = append(sl.Elems, g.lit(TRec(r.Name), sc, d-1, fx))
						}
						src = sl
					}
					g.feat("underscore-field")
					return &Pipe{src, &Call{Fn: v("slice.Map"), Args: []Expr{&UnderscoreField{f.Name}}}}
				}
			}
		}
	}
	return nil
}

// ProfileC02: only the constructs for which the documentation promises inference.
var ProfileC02 = Profile{Name: "c02", MulDiv: true, Tuple3: true, FieldPerm: true, Partial: false, Pipes: true, CompositeEq: true, SliceLib: true, StringsLib: true,
	StrCompare: true, GenericFns: true, NoIf: true, NoMatch: true, NoFieldAcc: true, FuncParamApply: true, LetRhsInline: true, MinFuncs: 0, MaxFuncs: 0, MaxDepth: 3}

// GenerateC02 builds a package of type definitions followed by n pure functions whose
// parameters are all annotated; the check erases subsets of the annotations.
func GenerateC02(r *core.Rand, pkg string, n int) (*Program, []*FuncDef) {
	g := &Gen{R: r, P: ProfileC02, shows: map[string]string{}, Features: map[string]int{}, applied: map[string]bool{}}
	g.prog = &Program{Pkg: pkg, Imports: []string{"frt", "slice", "strings"}}
	g.genTypes()
	g.genGenericHelpers()
	var subjects []*FuncDef
	for i := 0; i < n; i++ {
		var f *FuncDef
		for try := 0; try < 25; try++ {
			before := len(g.funcs)
			nd := len(g.prog.Decls)
			g.genFunc(true)
			f = g.funcs[before]
			// the body must mention every parameter, otherwise erasing is trivially generalising
			all := true
			for _, p := range f.Params {
				if !FreeInBlock(f.Body, p.Name) {
					all = false
				}
			}
			if all || try == 24 {
				break
			}
			g.funcs = g.funcs[:before]
			g.prog.Decls = g.prog.Decls[:nd]
		}
		f.AnnotRet = false
		subjects = append(subjects, f)
	}
	return g.prog, subjects
}

// moreSlice: Mapi / Collect / SortBy (injective key) / Take / Concat
func (g *Gen) moreSlice(t *Type, sc *scope, d int, fx bool) Expr {
	et := t.Elem()
	// Mapi / Collect / SortBy (injective key) / Take / Concat
	switch g.R.Intn(5) {
	case 0:
		st := core.Pick(g.R, []*Type{TInt, TString})
		i, x := g.fresh("i"), g.fresh("x")
		lsc := sc.child(true)
		lsc.add(i, TInt)
		lsc.add(x, st)
		g.feat("slice.Mapi")
		return call("slice.Mapi", g.lam([]Param{{Name: i, T: TInt}, {Name: x, T: st}}, g.expr(et, lsc, min(d-1, 2), fx)), g.expr(TSlice(st), sc, d-1, fx))
	case 1:
		st := core.Pick(g.R, []*Type{TInt, TString})
		x := g.fresh("x")
		lsc := sc.child(true)
		lsc.add(x, st)
		g.feat("slice.Collect")
		return call("slice.Collect", g.lam([]Param{{Name: x, T: st}}, g.expr(t, lsc, min(d-1, 2), fx)), g.expr(TSlice(st), sc, d-1, fx))
	case 2:
		if et.K == KInt {
			x := g.fresh("x")
			g.feat("slice.SortBy")
			return call("slice.SortBy", g.lam([]Param{{Name: x, T: TInt}}, &BinOp{"-", &IntLit{V: g.R.Intn(9)}, v(x)}), g.expr(t, sc, d-1, fx))
		}
		if et.K == KString {
			x := g.fresh("x")
			g.feat("slice.SortBy")
			return call("slice.SortBy", g.lam([]Param{{Name: x, T: TString}}, &BinOp{"+", v(x), &StrLit{"~"}}), g.expr(t, sc, d-1, fx))
		}
		return nil
	case 3:
		g.feat("slice.Take")
		if g.R.Bool() {
			return call("slice.Take", &IntLit{V: 0}, g.expr(t, sc, d-1, fx))
		}
		return call("slice.Take", &IntLit{V: 1}, call("slice.PushLast", g.expr(et, sc, d-1, fx), g.expr(t, sc, d-1, fx)))
	default:
		g.feat("slice.Concat")
		sl := &SliceLit{Elem: t}
		for i := 0; i < 1+g.R.Intn(3); i++ {
			sl.Elems = append(sl.Elems, g.expr(t, sc, d-1, fx))
		}
		return call("slice.Concat", sl)
	}
}
