// Package fo is a typed abstract syntax for the documented Folang subset, with a
// layout-parameterised pretty printer (print.go), a reference evaluator
// (eval.go: strict, left-to-right, lexically scoped) and a type-directed
// program generator (gen.go). It shares no code with fc or tinyfo.
package fo

import (
	"strings"
)

type Kind int

const (
	KInt Kind = iota
	KString
	KBool
	KUnit
	KSlice
	KTuple
	KFunc
	KRec
	KUnion
	KVar // type variable (generic functions)
)

type Type struct {
	K    Kind
	Name string  // record / union / type-variable name
	Args []*Type // slice: elem; tuple: elems; func: params..., result; rec/union: type arguments
}

var (
	TInt    = &Type{K: KInt}
	TString = &Type{K: KString}
	TBool   = &Type{K: KBool}
	TUnit   = &Type{K: KUnit}
)

func TSlice(e *Type) *Type      { return &Type{K: KSlice, Args: []*Type{e}} }
func TTuple(es ...*Type) *Type  { return &Type{K: KTuple, Args: es} }
func TFunc(ps ...*Type) *Type   { return &Type{K: KFunc, Args: ps} } // last = result
func TRec(name string) *Type    { return &Type{K: KRec, Name: name} }
func TUnion(name string) *Type  { return &Type{K: KUnion, Name: name} }
func TVar(name string) *Type    { return &Type{K: KVar, Name: name} }
func (t *Type) Elem() *Type     { return t.Args[0] }
func (t *Type) Result() *Type   { return t.Args[len(t.Args)-1] }
func (t *Type) Params() []*Type { return t.Args[:len(t.Args)-1] }

// String renders the type in Folang syntax (minimal parentheses).
func (t *Type) String() string { return t.str(0) }

// level: 0 = top (arrows allowed), 1 = inside arrow operand (tuples allowed), 2 = tuple element / slice element (atoms only)
func (t *Type) str(level int) string {
	switch t.K {
	case KInt:
		return "int"
	case KString:
		return "string"
	case KBool:
		return "bool"
	case KUnit:
		return "()"
	case KSlice:
		return "[]" + t.Args[0].str(2)
	case KTuple:
		var ps []string
		for _, a := range t.Args {
			ps = append(ps, a.str(2))
		}
		s := strings.Join(ps, "*")
		if level >= 2 {
			return "(" + s + ")"
		}
		return s
	case KFunc:
		var ps []string
		for _, a := range t.Args {
			ps = append(ps, a.str(1))
		}
		s := strings.Join(ps, "->")
		if level >= 1 {
			return "(" + s + ")"
		}
		return s
	case KRec, KUnion:
		if len(t.Args) == 0 {
			return t.Name
		}
		var ps []string
		for _, a := range t.Args {
			ps = append(ps, a.str(0))
		}
		return t.Name + "<" + strings.Join(ps, ", ") + ">"
	case KVar:
		return t.Name
	}
	return "?"
}

func (t *Type) Eq(u *Type) bool { return t.String() == u.String() }

// ---- declarations -------------------------------------------------------------

type Field struct {
	Name string
	T    *Type
}

type RecordDef struct {
	Name    string // for an instantiation of a generic record: "GBox<int>"
	Fields  []Field
	Generic bool // an instantiation of a generic record declared by a RawDecl
}

type UCase struct {
	Name    string
	Payload *Type // nil: no payload
}

type UnionDef struct {
	Name    string // for an instantiation of a generic union: "GOpt<int>"
	Cases   []UCase
	Generic bool  // an instantiation of a generic union declared by a RawDecl
	TArg    *Type // its type argument
}

type Param struct {
	Name    string
	T       *Type
	NoAnnot bool // print without annotation (inference must find T)
}

type FuncDef struct {
	Name     string
	Params   []Param // empty: unit parameter `()`
	Ret      *Type
	AnnotRet bool
	Body     *Block
	Pure     bool // no observable effects (safe where evaluation count/time is unspecified)
	Rec      bool // calls itself
}

func (f *FuncDef) Type() *Type {
	var ps []*Type
	if len(f.Params) == 0 {
		ps = append(ps, TUnit)
	}
	for _, p := range f.Params {
		ps = append(ps, p.T)
	}
	return TFunc(append(ps, f.Ret)...)
}

type VarDef struct {
	Name string
	T    *Type
	E    Expr
}

// PkgInfo is a package_info block (only what the subset needs).
type PkgInfoFunc struct {
	Name  string
	TArgs []string
	T     *Type
}
type PkgInfo struct {
	Pkg   string
	Types []string
	Funcs []PkgInfoFunc
}

type Decl interface{}

type Program struct {
	Tiny    bool // print for the tinyfo dialect as well: a slice literal in argument position is parenthesised
	Pkg     string
	Imports []string // frt, slice, strings, ...
	Decls   []Decl   // *RecordDef | *UnionDef | *FuncDef | *VarDef | *PkgInfo | *RecGroup
}

// RawDecl is a declaration given as source text (printed verbatim at column 0).
type RawDecl struct {
	Names []string // identifiers it defines
	Text  string
}

// RecGroup is a `type A = ... and B = ...` group.
type RecGroup struct {
	Defs []Decl // *RecordDef | *UnionDef
}

// ---- expressions ----------------------------------------------------------------

type Expr interface{}

type (
	// Pad > 0: written with leading zeros up to Pad digits (`010` is the decimal number ten)
	IntLit struct {
		V   int
		Pad int
	}
	StrLit  struct{ V string }
	RawLit  struct{ V string } // `...`
	BoolLit struct{ V bool }
	UnitLit struct{}
	Var     struct{ Name string } // local, global, function or qualified library name (slice.Map)
	BinOp   struct {
		Op   string
		L, R Expr
	}
	Not struct{ E Expr }
	If  struct {
		Cond  Expr
		Then  *Block
		Elifs []Elif
		Else  *Block // nil: if-only (unit)
		// OneLine: an else-less if with a one-expression body that every layout writes on one line
		OneLine bool
	}
	MatchU struct {
		Target  Expr
		Union   *UnionDef
		Arms    []UArm
		Default *Block
	}
	MatchS struct {
		Target  Expr
		Arms    []SArm
		VarName string // "" : `| _ ->` default rule
		Default *Block
	}
	RecLit struct {
		Rec    *RecordDef
		Order  []int  // order in which the fields are written (indices into Rec.Fields)
		Fields []Expr // by definition index
		Prefix bool   // write the first field as Rec.Field
	}
	FieldAcc struct {
		E    Expr
		Name string
	}
	TupleLit struct{ Elems []Expr }
	SliceLit struct {
		Elems []Expr
		Elem  *Type
	}
	Lambda struct {
		Params []Param
		Body   *Block
	}
	// Call applies Fn to Args (fewer than the arity: partial application).
	Call struct {
		Fn    Expr
		Args  []Expr
		TArgs []*Type // explicit type arguments, e.g. slice.New<int> ()
	}
	Pipe struct {
		L, R Expr
	}
	SInterp struct {
		Raw   bool
		Parts []SPart
	}
	UnderscoreField struct{ Name string } // _.Field
	// Ctor builds a union value: Case payload / Case
	Ctor struct {
		Union *UnionDef
		Case  int
		Arg   Expr // nil when the case has no payload
	}
)

type Elif struct {
	Cond Expr
	Body *Block
}

type UArm struct {
	Case int
	Bind string // variable name, "_" or "" (nothing written)
	Body *Block
}

type SArm struct {
	Lit  string
	Body *Block
}

type SPart struct {
	Text string
	Hole string // variable name or a.B path; "" for text
}

type Block struct {
	Stmts  []Stmt
	Result Expr
}

type Stmt interface{}

type (
	Let struct {
		Name string
		E    Expr
	}
	LetDestr struct {
		Names []string // "_" allowed
		E     Expr
	}
	ExprStmt struct{ E Expr } // unit-valued
	InnerFun struct {
		Name   string
		Params []Param
		Body   *Block
	}
)

func ExprBlock(e Expr) *Block { return &Block{Result: e} }
