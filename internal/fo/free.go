package fo

import "strings"

// FreeInBlock reports whether name occurs free in the block (respecting shadowing
// by lets, destructuring lets, inner functions, lambda parameters, arm variables
// and string-match variable rules).
func FreeInBlock(b *Block, name string) bool {
	return freeInSeq(b.Stmts, b.Result, name)
}

func freeInSeq(stmts []Stmt, result Expr, name string) bool {
	for i, s := range stmts {
		switch s := s.(type) {
		case *Let:
			if FreeInExpr(s.E, name) {
				return true
			}
			if s.Name == name {
				return false // rebound for the rest of the block
			}
		case *LetDestr:
			if FreeInExpr(s.E, name) {
				return true
			}
			for _, n := range s.Names {
				if n == name {
					return false
				}
			}
		case *ExprStmt:
			if FreeInExpr(s.E, name) {
				return true
			}
		case *InnerFun:
			bound := false
			for _, p := range s.Params {
				if p.Name == name {
					bound = true
				}
			}
			if !bound && FreeInBlock(s.Body, name) {
				return true
			}
			if s.Name == name {
				return false
			}
		}
		_ = i
	}
	return result != nil && FreeInExpr(result, name)
}

func FreeInExpr(e Expr, name string) bool {
	switch x := e.(type) {
	case nil:
		return false
	case *IntLit, *StrLit, *RawLit, *BoolLit, *UnitLit, *UnderscoreField:
		return false
	case *Var:
		return x.Name == name
	case *BinOp:
		return FreeInExpr(x.L, name) || FreeInExpr(x.R, name)
	case *Not:
		return FreeInExpr(x.E, name)
	case *If:
		if FreeInExpr(x.Cond, name) || FreeInBlock(x.Then, name) {
			return true
		}
		for _, el := range x.Elifs {
			if FreeInExpr(el.Cond, name) || FreeInBlock(el.Body, name) {
				return true
			}
		}
		return x.Else != nil && FreeInBlock(x.Else, name)
	case *MatchU:
		if FreeInExpr(x.Target, name) {
			return true
		}
		for _, a := range x.Arms {
			if a.Bind != name && FreeInBlock(a.Body, name) {
				return true
			}
		}
		return x.Default != nil && FreeInBlock(x.Default, name)
	case *MatchS:
		if FreeInExpr(x.Target, name) {
			return true
		}
		for _, a := range x.Arms {
			if FreeInBlock(a.Body, name) {
				return true
			}
		}
		return x.VarName != name && FreeInBlock(x.Default, name)
	case *RecLit:
		for _, f := range x.Fields {
			if FreeInExpr(f, name) {
				return true
			}
		}
		return false
	case *FieldAcc:
		return FreeInExpr(x.E, name)
	case *TupleLit:
		for _, f := range x.Elems {
			if FreeInExpr(f, name) {
				return true
			}
		}
		return false
	case *SliceLit:
		for _, f := range x.Elems {
			if FreeInExpr(f, name) {
				return true
			}
		}
		return false
	case *Lambda:
		for _, p := range x.Params {
			if p.Name == name {
				return false
			}
		}
		return FreeInBlock(x.Body, name)
	case *Call:
		if FreeInExpr(x.Fn, name) {
			return true
		}
		for _, a := range x.Args {
			if FreeInExpr(a, name) {
				return true
			}
		}
		return false
	case *Ctor:
		return x.Arg != nil && FreeInExpr(x.Arg, name)
	case *Pipe:
		return FreeInExpr(x.L, name) || FreeInExpr(x.R, name)
	case *SInterp:
		for _, p := range x.Parts {
			if p.Hole != "" && strings.Split(p.Hole, ".")[0] == name {
				return true
			}
		}
		return false
	}
	panic("FreeInExpr: unknown node")
}
