package fo

// Reference evaluator: strict, left-to-right, lexically scoped (DESIGN.md
// appendix A). It interprets the same abstract program the printer renders and
// predicts the complete standard output.

import (
	"fmt"
	"sort"
	"strings"
)

type Value interface{}

type Unit struct{}

type TupleV struct{ Elems []Value }
type RecV struct {
	Def    *RecordDef
	Fields []Value
}
type UnionV struct {
	Def     *UnionDef
	Case    int
	Payload Value
}
type BufV struct{ sb strings.Builder }
type DictV struct {
	keys []Value
	vals []Value
}

type FuncV struct {
	Arity   int
	Bound   []Value
	Def     *FuncDef
	Params  []Param // lambda / inner function
	Body    *Block
	Env     *Env
	Builtin string
	Ctor    *UnionDef
	CtorIdx int
}

type Env struct {
	name string
	v    Value
	next *Env
}

func (e *Env) bind(n string, v Value) *Env { return &Env{n, v, e} }
func (e *Env) lookup(n string) (Value, bool) {
	for x := e; x != nil; x = x.next {
		if x.name == n {
			return x.v, true
		}
	}
	return nil, false
}

type EvalError struct{ Msg string }

func (e *EvalError) Error() string { return e.Msg }

// ProgramPanic is a panic the Folang program itself would raise (frt.Panic, Head of empty ...).
type ProgramPanic struct{ Msg string }

type Evaluator struct {
	Out     strings.Builder
	globals map[string]Value
	steps   int
	MaxStep int
}

func fail(format string, a ...any) { panic(&EvalError{fmt.Sprintf(format, a...)}) }

// Run evaluates the program: top-level variables in order, then the function entry ().
func Run(p *Program, entry string) (out string, err error) {
	ev := &Evaluator{globals: map[string]Value{}, MaxStep: 2_000_000}
	defer func() {
		if r := recover(); r != nil {
			out = ev.Out.String()
			switch x := r.(type) {
			case *EvalError:
				err = x
			case *ProgramPanic:
				err = fmt.Errorf("program panic: %s", x.Msg)
			default:
				err = fmt.Errorf("evaluator type confusion: %v", r)
			}
		}
	}()
	var decls []Decl
	for _, d := range p.Decls {
		if g, ok := d.(*RecGroup); ok {
			decls = append(decls, g.Defs...)
		} else {
			decls = append(decls, d)
		}
	}
	for _, d := range decls {
		switch d := d.(type) {
		case *FuncDef:
			ar := len(d.Params)
			if ar == 0 {
				ar = 1
			}
			ev.globals[d.Name] = &FuncV{Arity: ar, Def: d}
		case *VarDef:
			ev.globals[d.Name] = ev.eval(d.E, nil)
		case *UnionDef:
			for i, c := range d.Cases {
				if c.Payload != nil {
					ev.globals[c.Name] = &FuncV{Arity: 1, Ctor: d, CtorIdx: i}
				} else {
					ev.globals[c.Name] = &UnionV{Def: d, Case: i}
				}
			}
		}
	}
	f, ok := ev.globals[entry]
	if !ok {
		return "", fmt.Errorf("no entry %s", entry)
	}
	ev.apply(f, []Value{Unit{}})
	return ev.Out.String(), nil
}

func (ev *Evaluator) tick() {
	ev.steps++
	if ev.steps > ev.MaxStep {
		fail("step budget exceeded")
	}
}

func (ev *Evaluator) evalBlock(b *Block, env *Env) Value {
	for _, s := range b.Stmts {
		switch s := s.(type) {
		case *Let:
			env = env.bind(s.Name, ev.eval(s.E, env))
		case *LetDestr:
			v := ev.eval(s.E, env)
			t, ok := v.(*TupleV)
			if !ok || len(t.Elems) != len(s.Names) {
				fail("destructuring a non-tuple")
			}
			for i, n := range s.Names {
				if n != "_" {
					env = env.bind(n, t.Elems[i])
				}
			}
		case *ExprStmt:
			ev.eval(s.E, env)
		case *InnerFun:
			ar := len(s.Params)
			if ar == 0 {
				ar = 1
			}
			env = env.bind(s.Name, &FuncV{Arity: ar, Params: s.Params, Body: s.Body, Env: env})
		default:
			fail("unknown stmt %T", s)
		}
	}
	return ev.eval(b.Result, env)
}

func (ev *Evaluator) lookup(name string, env *Env) Value {
	if v, ok := env.lookup(name); ok {
		return v
	}
	if v, ok := ev.globals[name]; ok {
		return v
	}
	if ar, ok := builtinArity[name]; ok {
		return &FuncV{Arity: ar, Builtin: name}
	}
	fail("unbound name %s", name)
	return nil
}

func (ev *Evaluator) eval(e Expr, env *Env) Value {
	ev.tick()
	switch x := e.(type) {
	case *IntLit:
		return x.V
	case *StrLit:
		return x.V
	case *RawLit:
		return x.V
	case *BoolLit:
		return x.V
	case *UnitLit:
		return Unit{}
	case *Var:
		return ev.lookup(x.Name, env)
	case *BinOp:
		l := ev.eval(x.L, env)
		switch x.Op {
		case "&&":
			if !l.(bool) {
				return false
			}
			return ev.eval(x.R, env).(bool)
		case "||":
			if l.(bool) {
				return true
			}
			return ev.eval(x.R, env).(bool)
		}
		r := ev.eval(x.R, env)
		switch x.Op {
		case "=":
			return DeepEq(l, r)
		case "<>":
			return !DeepEq(l, r)
		}
		if ls, ok := l.(string); ok {
			rs := r.(string)
			switch x.Op {
			case "+":
				return ls + rs
			case "<":
				return ls < rs
			case ">":
				return ls > rs
			case "<=":
				return ls <= rs
			case ">=":
				return ls >= rs
			}
			fail("bad string operator %s", x.Op)
		}
		li, ri := l.(int), r.(int)
		switch x.Op {
		case "+":
			return li + ri
		case "-":
			return li - ri
		case "*":
			return li * ri
		case "/":
			if ri == 0 {
				panic(&ProgramPanic{"integer divide by zero"})
			}
			return li / ri
		case "<":
			return li < ri
		case ">":
			return li > ri
		case "<=":
			return li <= ri
		case ">=":
			return li >= ri
		}
		fail("bad operator %s", x.Op)
	case *Not:
		return !ev.eval(x.E, env).(bool)
	case *If:
		if ev.eval(x.Cond, env).(bool) {
			return ev.evalBlock(x.Then, env)
		}
		for _, el := range x.Elifs {
			if ev.eval(el.Cond, env).(bool) {
				return ev.evalBlock(el.Body, env)
			}
		}
		if x.Else != nil {
			return ev.evalBlock(x.Else, env)
		}
		return Unit{}
	case *MatchU:
		t, ok := ev.eval(x.Target, env).(*UnionV)
		if !ok {
			fail("match target is not a union value")
		}
		for _, a := range x.Arms {
			if a.Case == t.Case {
				e2 := env
				if a.Bind != "" && a.Bind != "_" {
					e2 = env.bind(a.Bind, t.Payload)
				}
				return ev.evalBlock(a.Body, e2)
			}
		}
		if x.Default != nil {
			return ev.evalBlock(x.Default, env)
		}
		panic(&ProgramPanic{"Union pattern fail. Never reached here."})
	case *MatchS:
		t := ev.eval(x.Target, env).(string)
		for _, a := range x.Arms {
			if a.Lit == t {
				return ev.evalBlock(a.Body, env)
			}
		}
		e2 := env
		if x.VarName != "" {
			e2 = env.bind(x.VarName, t)
		}
		return ev.evalBlock(x.Default, e2)
	case *RecLit:
		vals := make([]Value, len(x.Rec.Fields))
		order := x.Order
		if order == nil {
			for i := range x.Rec.Fields {
				order = append(order, i)
			}
		}
		for _, i := range order {
			vals[i] = ev.eval(x.Fields[i], env)
		}
		return &RecV{Def: x.Rec, Fields: vals}
	case *FieldAcc:
		r, ok := ev.eval(x.E, env).(*RecV)
		if !ok {
			fail("field access on a non-record")
		}
		for i, f := range r.Def.Fields {
			if f.Name == x.Name {
				return r.Fields[i]
			}
		}
		fail("no field %s", x.Name)
	case *TupleLit:
		t := &TupleV{}
		for _, el := range x.Elems {
			t.Elems = append(t.Elems, ev.eval(el, env))
		}
		return t
	case *SliceLit:
		s := make([]Value, 0, len(x.Elems))
		for _, el := range x.Elems {
			s = append(s, ev.eval(el, env))
		}
		return s
	case *Lambda:
		ar := len(x.Params)
		if ar == 0 {
			ar = 1
		}
		return &FuncV{Arity: ar, Params: x.Params, Body: x.Body, Env: env}
	case *UnderscoreField:
		p := Param{Name: "_us"}
		return &FuncV{Arity: 1, Params: []Param{p}, Body: ExprBlock(&FieldAcc{E: &Var{Name: "_us"}, Name: x.Name}), Env: env}
	case *Call:
		f := ev.eval(x.Fn, env)
		args := make([]Value, len(x.Args))
		for i, a := range x.Args {
			args[i] = ev.eval(a, env)
		}
		if len(args) == 0 {
			return f
		}
		return ev.apply(f, args)
	case *Ctor:
		if x.Arg == nil {
			return &UnionV{Def: x.Union, Case: x.Case}
		}
		return &UnionV{Def: x.Union, Case: x.Case, Payload: ev.eval(x.Arg, env)}
	case *Pipe:
		l := ev.eval(x.L, env)
		f := ev.eval(x.R, env)
		return ev.apply(f, []Value{l})
	case *SInterp:
		var b strings.Builder
		for _, p := range x.Parts {
			if p.Hole == "" {
				b.WriteString(p.Text)
				continue
			}
			path := strings.Split(p.Hole, ".")
			v := ev.lookup(path[0], env)
			for _, fn := range path[1:] {
				r := v.(*RecV)
				found := false
				for i, f := range r.Def.Fields {
					if f.Name == fn {
						v, found = r.Fields[i], true
					}
				}
				if !found {
					fail("no field %s in hole", fn)
				}
			}
			b.WriteString(display(v))
		}
		return b.String()
	}
	fail("unknown expr %T", e)
	return nil
}

// display is the interpolation display form: decimal ints, strings verbatim, %v of bools.
func display(v Value) string {
	switch x := v.(type) {
	case int:
		return fmt.Sprint(x)
	case string:
		return x
	case bool:
		return fmt.Sprint(x)
	}
	fail("display form of %T is not modelled", v)
	return ""
}

func (ev *Evaluator) apply(f Value, args []Value) Value {
	ev.tick()
	fv, ok := f.(*FuncV)
	if !ok {
		fail("applying a non-function %T", f)
	}
	all := append(append([]Value{}, fv.Bound...), args...)
	if len(all) < fv.Arity {
		n := *fv
		n.Bound = all
		return &n
	}
	res := ev.invoke(fv, all[:fv.Arity])
	if len(all) > fv.Arity {
		return ev.apply(res, all[fv.Arity:])
	}
	return res
}

func (ev *Evaluator) invoke(fv *FuncV, args []Value) Value {
	switch {
	case fv.Def != nil:
		var env *Env
		for i, p := range fv.Def.Params {
			env = env.bind(p.Name, args[i])
		}
		return ev.evalBlock(fv.Def.Body, env)
	case fv.Body != nil:
		env := fv.Env
		for i, p := range fv.Params {
			env = env.bind(p.Name, args[i])
		}
		return ev.evalBlock(fv.Body, env)
	case fv.Ctor != nil:
		return &UnionV{Def: fv.Ctor, Case: fv.CtorIdx, Payload: args[0]}
	case fv.Builtin != "":
		return ev.builtin(fv.Builtin, args)
	}
	fail("bad function value")
	return nil
}

func DeepEq(a, b Value) bool {
	switch x := a.(type) {
	case int:
		y, ok := b.(int)
		return ok && x == y
	case string:
		y, ok := b.(string)
		return ok && x == y
	case bool:
		y, ok := b.(bool)
		return ok && x == y
	case Unit:
		_, ok := b.(Unit)
		return ok
	case []Value:
		y, ok := b.([]Value)
		if !ok || len(x) != len(y) {
			return false
		}
		for i := range x {
			if !DeepEq(x[i], y[i]) {
				return false
			}
		}
		return true
	case *TupleV:
		y, ok := b.(*TupleV)
		return ok && DeepEq(x.Elems, y.Elems)
	case *RecV:
		y, ok := b.(*RecV)
		return ok && x.Def == y.Def && DeepEq(x.Fields, y.Fields)
	case *UnionV:
		y, ok := b.(*UnionV)
		if !ok || x.Def != y.Def || x.Case != y.Case {
			return false
		}
		if x.Payload == nil || y.Payload == nil {
			return x.Payload == nil && y.Payload == nil
		}
		return DeepEq(x.Payload, y.Payload)
	}
	fail("equality on %T is not modelled", a)
	return false
}

var builtinArity = map[string]int{
	"frt.Println": 1, "frt.Printf1": 2, "frt.Sprintf1": 2, "frt.Sprintf2": 3, "frt.Fst": 1, "frt.Snd": 1, "frt.Assert": 2, "frt.Panic": 1,
	"slice.New": 1, "slice.Length": 1, "slice.Len": 1, "slice.Item": 2, "slice.IsEmpty": 1, "slice.IsNotEmpty": 1, "slice.Last": 1, "slice.Head": 1,
	"slice.Tail": 1, "slice.PopLast": 1, "slice.PushLast": 2, "slice.PushHead": 2, "slice.Collect": 2, "slice.Concat": 1, "slice.Append": 2,
	"slice.Take": 2, "slice.Map": 2, "slice.Mapi": 2, "slice.Iter": 2, "slice.Filter": 2, "slice.Sort": 1, "slice.SortBy": 2, "slice.Skip": 2,
	"slice.Zip": 2, "slice.Forall": 2, "slice.Forany": 2, "slice.Distinct": 1, "slice.TryFind": 2, "slice.Fold": 3,
	"strings.Concat": 2, "strings.Length": 1, "strings.AppendTail": 2, "strings.AppendHead": 2, "strings.HasSuffix": 2, "strings.HasPrefix": 2,
	"strings.TrimSuffix": 2, "strings.EncloseWith": 3, "strings.Split": 2, "strings.SplitN": 3, "strings.IsEmpty": 1, "strings.IsNotEmpty": 1,
	"buf.New": 1, "buf.Write": 2, "buf.String": 1,
	"dict.New": 1, "dict.Add": 3, "dict.ContainsKey": 2, "dict.TryFind": 2, "dict.Item": 2, "dict.ToDict": 1,
}

// zero value used by TryFind misses: the evaluator has no static types at run
// time, so generators only observe the flag of a miss, never the value.
type ZeroV struct{}

func less(a, b Value) bool {
	switch x := a.(type) {
	case int:
		return x < b.(int)
	case string:
		return x < b.(string)
	}
	fail("ordering on %T is not modelled", a)
	return false
}

func format(f string, args []Value) string {
	var b strings.Builder
	ai := 0
	for i := 0; i < len(f); i++ {
		c := f[i]
		if c != '%' {
			b.WriteByte(c)
			continue
		}
		i++
		if i >= len(f) {
			fail("format ends in %%")
		}
		switch f[i] {
		case '%':
			b.WriteByte('%')
		case 'd', 's', 'v':
			if ai >= len(args) {
				fail("format: missing argument")
			}
			v := args[ai]
			ai++
			switch x := v.(type) {
			case int:
				if f[i] == 's' {
					fail("%%s of int is not modelled")
				}
				b.WriteString(fmt.Sprint(x))
			case string:
				if f[i] == 'd' {
					fail("%%d of string is not modelled")
				}
				b.WriteString(x)
			case bool:
				if f[i] != 'v' {
					fail("only %%v of bool is modelled")
				}
				b.WriteString(fmt.Sprint(x))
			default:
				fail("format of %T is not modelled", v)
			}
		default:
			fail("format verb %%%c is not modelled", f[i])
		}
	}
	return b.String()
}

func (ev *Evaluator) builtin(name string, a []Value) Value {
	sl := func(v Value) []Value {
		s, ok := v.([]Value)
		if !ok {
			fail("%s: argument is not a slice (%T)", name, v)
		}
		return s
	}
	call1 := func(f Value, x Value) Value { return ev.apply(f, []Value{x}) }
	switch name {
	case "frt.Println":
		ev.Out.WriteString(a[0].(string) + "\n")
		return Unit{}
	case "frt.Printf1":
		ev.Out.WriteString(format(a[0].(string), a[1:]))
		return Unit{}
	case "frt.Sprintf1", "frt.Sprintf2":
		return format(a[0].(string), a[1:])
	case "frt.Fst":
		return a[0].(*TupleV).Elems[0]
	case "frt.Snd":
		return a[0].(*TupleV).Elems[1]
	case "frt.Assert":
		if !a[0].(bool) {
			panic(&ProgramPanic{a[1].(string)})
		}
		return Unit{}
	case "frt.Panic":
		panic(&ProgramPanic{a[0].(string)})
	case "slice.New":
		return []Value{}
	case "slice.Length", "slice.Len":
		return len(sl(a[0]))
	case "slice.Item":
		s := sl(a[1])
		i := a[0].(int)
		if i < 0 || i >= len(s) {
			panic(&ProgramPanic{"index out of range"})
		}
		return s[i]
	case "slice.IsEmpty":
		return len(sl(a[0])) == 0
	case "slice.IsNotEmpty":
		return len(sl(a[0])) != 0
	case "slice.Last":
		s := sl(a[0])
		if len(s) == 0 {
			panic(&ProgramPanic{"Last of empty"})
		}
		return s[len(s)-1]
	case "slice.Head":
		s := sl(a[0])
		if len(s) == 0 {
			panic(&ProgramPanic{"call Head to empty list"})
		}
		return s[0]
	case "slice.Tail":
		s := sl(a[0])
		if len(s) == 0 {
			panic(&ProgramPanic{"call Tail to empty list"})
		}
		return append([]Value{}, s[1:]...)
	case "slice.PopLast":
		s := sl(a[0])
		if len(s) == 0 {
			panic(&ProgramPanic{"PopLast of empty"})
		}
		return append([]Value{}, s[:len(s)-1]...)
	case "slice.PushLast":
		return append(append([]Value{}, sl(a[1])...), a[0])
	case "slice.PushHead":
		return append([]Value{a[0]}, sl(a[1])...)
	case "slice.Collect":
		var res []Value
		for _, e := range sl(a[1]) {
			res = append(res, sl(call1(a[0], e))...)
		}
		return orEmpty(res)
	case "slice.Concat":
		var res []Value
		for _, s := range sl(a[0]) {
			res = append(res, sl(s)...)
		}
		return orEmpty(res)
	case "slice.Append":
		return orEmpty(append(append([]Value{}, sl(a[0])...), sl(a[1])...))
	case "slice.Take":
		s, n := sl(a[1]), a[0].(int)
		if n < 0 || n > len(s) {
			panic(&ProgramPanic{"Take out of range"})
		}
		return append([]Value{}, s[:n]...)
	case "slice.Skip":
		s, n := sl(a[1]), a[0].(int)
		if n < 0 {
			panic(&ProgramPanic{"Skip negative"})
		}
		if n > len(s) {
			n = len(s)
		}
		return append([]Value{}, s[n:]...)
	case "slice.Map":
		res := []Value{}
		for _, e := range sl(a[1]) {
			res = append(res, call1(a[0], e))
		}
		return res
	case "slice.Mapi":
		res := []Value{}
		for i, e := range sl(a[1]) {
			res = append(res, ev.apply(a[0], []Value{i, e}))
		}
		return res
	case "slice.Iter":
		for _, e := range sl(a[1]) {
			call1(a[0], e)
		}
		return Unit{}
	case "slice.Filter":
		res := []Value{}
		for _, e := range sl(a[1]) {
			if call1(a[0], e).(bool) {
				res = append(res, e)
			}
		}
		return res
	case "slice.Sort":
		res := append([]Value{}, sl(a[0])...)
		sort.SliceStable(res, func(i, j int) bool { return less(res[i], res[j]) })
		return res
	case "slice.SortBy":
		s := sl(a[1])
		keys := make([]Value, len(s))
		for i, e := range s {
			keys[i] = call1(a[0], e)
		}
		idx := make([]int, len(s))
		for i := range idx {
			idx[i] = i
		}
		sort.SliceStable(idx, func(i, j int) bool { return less(keys[idx[i]], keys[idx[j]]) })
		res := make([]Value, len(s))
		for i, k := range idx {
			res[i] = s[k]
		}
		return res
	case "slice.Zip":
		x, y := sl(a[0]), sl(a[1])
		if len(x) != len(y) {
			panic(&ProgramPanic{"zip with different length slices."})
		}
		res := []Value{}
		for i := range x {
			res = append(res, &TupleV{[]Value{x[i], y[i]}})
		}
		return res
	case "slice.Forall":
		for _, e := range sl(a[1]) {
			if !call1(a[0], e).(bool) {
				return false
			}
		}
		return true
	case "slice.Forany":
		for _, e := range sl(a[1]) {
			if call1(a[0], e).(bool) {
				return true
			}
		}
		return false
	case "slice.Distinct":
		res := []Value{}
		for _, e := range sl(a[0]) {
			dup := false
			for _, r := range res {
				if DeepEq(r, e) {
					dup = true
					break
				}
			}
			if !dup {
				res = append(res, e)
			}
		}
		return res
	case "slice.TryFind":
		for _, e := range sl(a[1]) {
			if call1(a[0], e).(bool) {
				return &TupleV{[]Value{e, true}}
			}
		}
		return &TupleV{[]Value{ZeroV{}, false}}
	case "slice.Fold":
		st := a[1]
		for _, e := range sl(a[2]) {
			st = ev.apply(a[0], []Value{st, e})
		}
		return st
	case "strings.Concat":
		var parts []string
		for _, e := range sl(a[1]) {
			parts = append(parts, e.(string))
		}
		return strings.Join(parts, a[0].(string))
	case "strings.Length":
		return len(a[0].(string))
	case "strings.AppendTail":
		return a[1].(string) + a[0].(string)
	case "strings.AppendHead":
		return a[0].(string) + a[1].(string)
	case "strings.HasSuffix":
		return strings.HasSuffix(a[1].(string), a[0].(string))
	case "strings.HasPrefix":
		return strings.HasPrefix(a[1].(string), a[0].(string))
	case "strings.TrimSuffix":
		return strings.TrimSuffix(a[1].(string), a[0].(string))
	case "strings.EncloseWith":
		return a[0].(string) + a[2].(string) + a[1].(string)
	case "strings.Split":
		var res []Value
		for _, p := range strings.Split(a[1].(string), a[0].(string)) {
			res = append(res, p)
		}
		return orEmpty(res)
	case "strings.SplitN":
		var res []Value
		for _, p := range strings.SplitN(a[2].(string), a[1].(string), a[0].(int)) {
			res = append(res, p)
		}
		return orEmpty(res)
	case "strings.IsEmpty":
		return a[0].(string) == ""
	case "strings.IsNotEmpty":
		return a[0].(string) != ""
	case "buf.New":
		return &BufV{}
	case "buf.Write":
		a[0].(*BufV).sb.WriteString(a[1].(string))
		return Unit{}
	case "buf.String":
		return a[0].(*BufV).sb.String()
	case "dict.New":
		return &DictV{}
	case "dict.Add":
		d := a[0].(*DictV)
		for i, k := range d.keys {
			if DeepEq(k, a[1]) {
				d.vals[i] = a[2]
				return Unit{}
			}
		}
		d.keys = append(d.keys, a[1])
		d.vals = append(d.vals, a[2])
		return Unit{}
	case "dict.ContainsKey":
		d := a[0].(*DictV)
		for _, k := range d.keys {
			if DeepEq(k, a[1]) {
				return true
			}
		}
		return false
	case "dict.TryFind":
		d := a[0].(*DictV)
		for i, k := range d.keys {
			if DeepEq(k, a[1]) {
				return &TupleV{[]Value{d.vals[i], true}}
			}
		}
		return &TupleV{[]Value{ZeroV{}, false}}
	case "dict.Item":
		d := a[0].(*DictV)
		for i, k := range d.keys {
			if DeepEq(k, a[1]) {
				return d.vals[i]
			}
		}
		return ZeroV{}
	case "dict.ToDict":
		d := &DictV{}
		for _, p := range sl(a[0]) {
			t := p.(*TupleV)
			ev.builtin("dict.Add", []Value{d, t.Elems[0], t.Elems[1]})
		}
		return d
	}
	fail("builtin %s is not modelled", name)
	return nil
}

func orEmpty(s []Value) []Value {
	if s == nil {
		return []Value{}
	}
	return s
}
