package fo

import (
	"strings"

	"verif/internal/core"
)

// RandLayout draws every layout decision independently: indentation unit of each
// block, blank lines, own-line and trailing comments, trailing white space, one-line
// vs multi-line if, let right-hand side / arm body on the same or the next line,
// line break before every |>, multi-line record definitions.
type RandLayout struct {
	R        *core.Rand
	Tabs     bool // allow a tab as a block's indentation unit
	Comments bool
	Stats    map[string]int
}

func NewRandLayout(r *core.Rand) *RandLayout {
	return &RandLayout{R: r, Tabs: true, Comments: true, Stats: map[string]int{}}
}

func (l *RandLayout) Indent(site string) string {
	if l.Tabs && l.R.Chance(0.08) {
		l.Stats["indent-tab"]++
		return "\t"
	}
	n := 1 + l.R.Intn(9)
	if l.R.Chance(0.5) {
		n = 1 + l.R.Intn(4)
	}
	l.Stats["indent-spaces"]++
	return strings.Repeat(" ", n)
}

func (l *RandLayout) Choice(site string, n int) int {
	c := l.R.Intn(n)
	if c != 0 {
		l.Stats["choice:"+site]++
	}
	return c
}

var commentTexts = []string{"c", "let x = 1", "| A -> 2", "if then else", "\"quote", "`tick", "{ } ( ) [ ]", "->", "|>", "日本語", "*", "// nested", "type T = {A: int}", ""}

func (l *RandLayout) comment() string {
	t := core.Pick(l.R, commentTexts)
	if l.R.Bool() {
		if l.R.Chance(0.2) {
			// tight forms: no space after the slashes, block-comment openers inside a line comment
			return core.Pick(l.R, []string{"//", "//" + t, "///", "// /* not opened", "//*", "// */"})
		}
		return "// " + t
	}
	if l.R.Chance(0.3) {
		// block comments whose delimiters touch stars, slashes or nothing at all
		return core.Pick(l.R, []string{"/**/", "/***/", "/****/", "/** doc **/", "/* x **/", "/*** banner ***/", "/*/ */", "/* / * / */", "/*" + strings.ReplaceAll(t, "*/", "* /") + "*/", "/* // */", "/* ** */"})
	}
	return "/* " + strings.ReplaceAll(t, "*/", "* /") + " */"
}

func (l *RandLayout) Filler(site string, ind string) []string {
	var out []string
	if site == "pkg" {
		return nil
	}
	for l.R.Chance(0.12) {
		out = append(out, "")
		l.Stats["blank-line"]++
	}
	if l.Comments && l.R.Chance(0.12) {
		col := ind
		if l.R.Chance(0.4) {
			col = strings.Repeat(" ", l.R.Intn(14))
		}
		if l.R.Chance(0.25) {
			// a block comment spanning several lines, ending its line
			out = append(out, col+"/* multi", "line "+core.Pick(l.R, commentTexts), col+"   end */")
			l.Stats["own-line-multiline-comment"]++
		} else {
			out = append(out, col+l.comment())
			l.Stats["own-line-comment"]++
		}
		if l.R.Chance(0.3) {
			out = append(out, "")
		}
	}
	if l.R.Chance(0.05) {
		out = append(out, strings.Repeat(" ", l.R.Intn(8))+strings.Repeat("\t", l.R.Intn(2)))
		l.Stats["whitespace-only-line"]++
	}
	return out
}

func (l *RandLayout) Trailer(site string) string {
	s := ""
	if l.R.Chance(0.1) {
		s += strings.Repeat(" ", 1+l.R.Intn(3))
		if l.R.Chance(0.3) {
			s += "\t"
		}
		l.Stats["trailing-space"]++
	}
	if l.Comments && l.R.Chance(0.08) && site != "pkg" && site != "import" {
		s += " " + l.comment()
		l.Stats["trailing-comment"]++
		if l.R.Chance(0.3) {
			s += "  "
		}
	}
	return s
}
